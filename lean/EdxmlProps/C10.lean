/-
C10. Accepted ontology upgrades are backward compatible with existing events.

Whenever the comparison of C09 accepts a newer definition (`old < new`), the gate generated from
the newer definitions (C03) accepts every event the old gate accepted, the event keeps its sticky
hash (C01), and its hashed properties are the same.
-/
import EdxmlProps.C09
import EdxmlProps.Lemmas.GateMono
import EdxmlProps.C04
import EdxmlModel.Ontology.Compat
namespace EdxmlProps.C10
open Edxml Edxml.Ont Edxml.Gate EdxmlProps.C09 EdxmlProps.C04

/-! ### object types: the value space never shrinks -/

theorem family_enum (dt : String) (vs : List String) (h : splitColon dt = "enum" :: vs) : family dt = .enum vs := by
  unfold family; rw [h]; simp

/-- the recogniser looks at the regular expression verdict only to conjoin it -/
theorem acceptsFam_mono_info (f : Family) (i i' : StrInfo) (v : String)
    (h1 : i'.hasLu = i.hasLu) (h2 : i'.hasLl = i.hasLl) (h3 : i'.latin1 = i.latin1)
    (h4 : i.regexOk.getD true = true → i'.regexOk.getD true = true)
    (h : acceptsFam f i v = true) : acceptsFam f i' v = true := by
  cases f <;> try exact h
  rename_i n c u
  simp only [acceptsFam, acceptsString, Bool.and_eq_true] at h ⊢
  rw [h1, h2, h3]
  exact ⟨h.1, h4 h.2⟩

theorem enum_extension (o n : List String) (h1 : o.head? = some "enum") (h3 : n.take o.length = o) :
    ∃ vs extra, o = "enum" :: vs ∧ n = "enum" :: (vs ++ extra) := by
  match o, h1 with
  | x :: vs, h1 =>
    simp only [List.head?_cons, Option.some.injEq] at h1
    subst h1
    refine ⟨vs, n.drop (vs.length + 1), rfl, ?_⟩
    have := List.take_append_drop (vs.length + 1) n
    simp only [List.length_cons] at h3
    rw [h3] at this
    simpa using this.symm

/-- C10 for object types: an accepted upgrade (enum extension, `old|…` regular expression or a
dropped expression) accepts every value the old definition accepted. -/
theorem objectType_upgrade_value_space (sem : RegexSem) (a b : ObjectTypeDef) (h : cmpObjectType a b = .lt)
    (lu ll l1 : Bool) (v : String)
    (hv : accepts a.dataType ⟨lu, ll, l1, a.regexHard.map (sem.«matches» · v)⟩ v = true) :
    accepts b.dataType ⟨lu, ll, l1, b.regexHard.map (sem.«matches» · v)⟩ v = true := by
  obtain ⟨_, _, hvalid⟩ := (cmpGen_lt_iff _ a b _ _).mp h
  simp only [objectTypeFlags_nf, ap_fields, Bool.true_and, Bool.and_eq_true, Bool.or_eq_true, beq_iff_eq] at hvalid
  obtain ⟨hre, hdt⟩ := hvalid
  -- the verdict of the regular expression can only improve
  have hrx : (a.regexHard.map (sem.«matches» · v)).getD true = true → (b.regexHard.map (sem.«matches» · v)).getD true = true := by
    rcases hre with he | hu
    · rw [he]; exact id
    · unfold regexUpgradeOk at hu
      cases ha : a.regexHard with
      | none => rw [ha] at hu; cases hu
      | some r =>
        rw [ha] at hu
        cases hb : b.regexHard with
        | none => intro _; rfl
        | some x =>
          rw [hb] at hu
          simp only [Option.map_some, Option.getD_some]
          exact sem.alt r x v hu
  unfold accepts at hv ⊢
  rcases hdt with he | hu
  · rw [← he]
    exact acceptsFam_mono_info _ ⟨lu, ll, l1, a.regexHard.map (sem.«matches» · v)⟩ ⟨lu, ll, l1, b.regexHard.map (sem.«matches» · v)⟩ v rfl rfl rfl hrx hv
  · unfold dataTypeUpgradeOk at hu
    simp only [Bool.and_eq_true, beq_iff_eq, decide_eq_true_eq] at hu
    obtain ⟨⟨⟨ho, _⟩, _⟩, ht⟩ := hu
    obtain ⟨vs, extra, e1, e2⟩ := enum_extension _ _ ho ht
    rw [family_enum _ _ e1] at hv
    rw [family_enum _ _ e2]
    simp only [acceptsFam, List.contains_eq_mem, decide_eq_true_eq, List.mem_append] at hv ⊢
    exact Or.inl hv

/-! ### event types -/

/-- every object type is still defined, unchanged or as an accepted upgrade -/
structure OntUp (ots ots' : List ObjectTypeDef) : Prop where
  nodup : (ots.map (·.name)).Nodup
  nodup' : (ots'.map (·.name)).Nodup
  up : ∀ ot ∈ ots, ∃ ot' ∈ ots', ot'.name = ot.name ∧ (ot' = ot ∨ cmpObjectType ot ot' = .lt)

theorem eventTypeFlags_valid (o n : EventTypeDef) (vo vn : Nat) :
    (eventTypeFlags o n vo vn).valid =
      ((o.versionProp == n.versionProp) && (o.seqProp == n.seqProp) && (o.tsStart == n.tsStart) &&
        (o.tsEnd == n.tsEnd) && parentV vo vn o.parent n.parent &&
        (keysEq (o.props.map (·.name)) (n.props.map (·.name)) ||
          (keysSubset (o.props.map (·.name)) (n.props.map (·.name)) &&
            (n.props.filter fun p => !(o.props.map (·.name)).contains p.name).all (·.optional) &&
            ((n.props.filter fun p => !(o.props.map (·.name)).contains p.name).isEmpty || !o.timeless || n.timeless))) &&
        ((common (·.name) o.props n.props).map fun p => cmpProp vo vn p.1 p.2).all (· != .gt) &&
        (keysEq (o.relations.map (·.id)) (n.relations.map (·.id)) || keysSubset (o.relations.map (·.id)) (n.relations.map (·.id))) &&
        ((common (·.id) o.relations n.relations).map fun p => cmpRelation vo vn p.1 p.2).all (· != .gt) &&
        (keysEq (o.attachments.map (·.name)) (n.attachments.map (·.name)) || keysSubset (o.attachments.map (·.name)) (n.attachments.map (·.name))) &&
        ((common (·.name) o.attachments n.attachments).map fun p => cmpAttachment vo vn p.1 p.2).all (· != .gt)) := by
  unfold eventTypeFlags subElementFlags
  simp only [andEqual_ap, frozen_ap, parentStep_ap, propKeyStep_ap, subFold_ap, mono_ap, ap_ap, Bool.or_false,
    Bool.false_or, Bool.or_assoc]
  simp only [Flags.ap, Bool.true_and, Bool.and_assoc]

/-- what an accepted event type upgrade guarantees about properties and attachments -/
structure EtUp (a b : EventTypeDef) : Prop where
  props : ∀ p ∈ a.props, ∃ p' ∈ b.props, p'.name = p.name ∧ p'.objectType = p.objectType ∧ p'.merge = p.merge ∧
    (p.optional = true → p'.optional = true) ∧ (p.multivalued = true → p'.multivalued = true)
  added : ∀ p' ∈ b.props, (∃ p ∈ a.props, p.name = p'.name) ∨ p'.optional = true
  atts : ∀ x ∈ a.attachments, ∃ x' ∈ b.attachments, x'.name = x.name ∧ x'.encoding = x.encoding

theorem etUp_refl (a : EventTypeDef) : EtUp a a :=
  ⟨fun p hp => ⟨p, hp, rfl, rfl, rfl, id, id⟩, fun p hp => Or.inl ⟨p, hp, rfl⟩, fun x hx => ⟨x, hx, rfl, rfl⟩⟩

theorem keys_subset_of_or {a b : List String} (h : (keysEq a b || keysSubset a b) = true) : keysSubset a b = true := by
  rcases Bool.or_eq_true_iff.mp h with h | h
  · exact keysEq_subset h
  · exact h

/-- C10, structure: what `cmpEventType a b = .lt` (an accepted upgrade) implies -/
theorem eventType_upgrade_facts (a b : EventTypeDef) (ha : EtWF a) (h : cmpEventType a b = .lt) : EtUp a b := by
  obtain ⟨hlt, hraised, hvalid⟩ := (cmpGen_lt_iff _ a b _ _).mp h
  rw [eventTypeFlags_valid] at hvalid
  obtain ⟨V, hnf⟩ := eventTypeFlags_nf a b a.version b.version
  rw [hnf] at hraised
  simp only [ap_fields, Bool.false_or, Bool.or_eq_false_iff] at hraised
  simp only [Bool.and_eq_true] at hvalid
  obtain ⟨⟨⟨⟨⟨⟨_, hkeys⟩, hprops⟩, _⟩, _⟩, hakeys⟩, hatts⟩ := hvalid
  obtain ⟨⟨⟨_, rprops⟩, _⟩, ratts⟩ := hraised
  have hsub : keysSubset (a.props.map (·.name)) (b.props.map (·.name)) = true := by
    rcases Bool.or_eq_true_iff.mp hkeys with h | h
    · exact keysEq_subset h
    · simp only [Bool.and_eq_true] at h; exact h.1.1
  have hasub := keys_subset_of_or hakeys
  refine ⟨?_, ?_, ?_⟩
  · intro p hp
    have : p.name ∈ b.props.map (·.name) := keysSubset_mem hsub _ (List.mem_map_of_mem hp)
    obtain ⟨p', hp', hn⟩ := List.mem_map.mp this
    have hl := pair_lt (fun x : PropDef => x.name) (cmpProp a.version b.version) a.props b.props ha.props hprops rprops
      (fun o x => cmpGen_ne_eq_of_lt _ _ _ _ _ hlt) p p' hp hp' hn.symm
    obtain ⟨_, _, pv⟩ := (cmpGen_lt_iff _ p p' _ _).mp hl
    simp only [propFlags_nf, ap_fields, Bool.and_eq_true, beq_iff_eq, Bool.and_true, Bool.or_eq_true] at pv
    obtain ⟨⟨⟨⟨⟨e1, e2⟩, e3⟩, e4⟩, _⟩, _⟩ := pv
    refine ⟨p', hp', hn, e1.symm, e2.symm, ?_, ?_⟩
    · intro ho; rcases e4 with e | e
      · rw [← e]; exact ho
      · exact e
    · intro hm; rcases e3 with e | e
      · rw [← e]; exact hm
      · exact e
  · intro p' hp'
    by_cases hex : ∃ p ∈ a.props, p.name = p'.name
    · exact Or.inl hex
    · right
      rcases Bool.or_eq_true_iff.mp hkeys with hke | hks
      · exfalso
        have hs : keysSubset (b.props.map (·.name)) (a.props.map (·.name)) = true := by
          unfold keysEq at hke; simp only [Bool.and_eq_true] at hke; exact hke.2
        have := keysSubset_mem hs _ (List.mem_map_of_mem (f := fun x : PropDef => x.name) hp')
        obtain ⟨p, hp, hn⟩ := List.mem_map.mp this
        exact hex ⟨p, hp, hn⟩
      · simp only [Bool.and_eq_true, List.all_eq_true, List.mem_filter, Bool.not_eq_true', and_imp] at hks
        apply hks.1.2 p' hp'
        rw [← Bool.not_eq_true, List.contains_iff_mem]
        intro hm
        obtain ⟨p, hp, hn⟩ := List.mem_map.mp hm
        exact hex ⟨p, hp, hn⟩
  · intro x hx
    have : x.name ∈ b.attachments.map (·.name) := keysSubset_mem hasub _ (List.mem_map_of_mem hx)
    obtain ⟨x', hx', hn⟩ := List.mem_map.mp this
    have hl := pair_lt (fun y : AttachmentDef => y.name) (cmpAttachment a.version b.version) a.attachments b.attachments
      ha.attachments hatts ratts (fun o y => cmpGen_ne_eq_of_lt _ _ _ _ _ hlt) x x' hx hx' hn.symm
    obtain ⟨_, _, av⟩ := (cmpGen_lt_iff _ x x' _ _).mp hl
    simp only [attachmentFlags_nf, ap_fields, Bool.and_eq_true, beq_iff_eq, Bool.and_true] at av
    exact ⟨x', hx', hn, av.2.symm⟩


/-! ### from definitions to gates -/

theorem accepts_empty_type (i : StrInfo) (v : String) : accepts "" i v = false := by
  have : family "" = .unknown := by decide
  unfold accepts; rw [this]; rfl

theorem gateType_prop_names (ots : List ObjectTypeDef) (a : EventTypeDef) :
    (gateType ots a).props.map (·.name) = a.props.map (·.name) := by
  simp [gateType, gProp, gAtt, List.map_map, Function.comp_def]

theorem gateType_att_names (ots : List ObjectTypeDef) (a : EventTypeDef) :
    (gateType ots a).attachments.map (·.name) = a.attachments.map (·.name) := by
  simp [gateType, gProp, gAtt, List.map_map, Function.comp_def]

/-- The gate generated from upgraded definitions admits at least what the old gate admitted. -/
theorem upgrade_GUp (sem : RegexSem) (cls : String → Bool × Bool × Bool) (ots ots' : List ObjectTypeDef)
    (a b : EventTypeDef) (ha : EtWF a) (hb : EtWF b) (ho : OntUp ots ots') (he : EtUp a b) :
    GUp (gateType ots a) (gateType ots' b) (infoOf sem cls ots a) (infoOf sem cls ots' b) where
  nodup := by rw [gateType_prop_names]; exact ha.props
  nodup' := by rw [gateType_prop_names]; exact hb.props
  anodup := by rw [gateType_att_names]; exact ha.attachments
  anodup' := by rw [gateType_att_names]; exact hb.attachments
  props := by
    intro p hp
    simp only [gateType, List.mem_map] at hp
    obtain ⟨q, hq, rfl⟩ := hp
    obtain ⟨q', hq', hn, hot, _, hopt, hmul⟩ := he.props q hq
    refine ⟨_, List.mem_map_of_mem (f := gProp ots') hq', hn, hopt, hmul, ?_⟩
    intro v hv
    simp only [gProp] at hv ⊢
    have fq : findBy (fun x : PropDef => x.name) q.name a.props = some q := findBy_of_mem ha.props hq
    have fq' : findBy (fun x : PropDef => x.name) q.name b.props = some q' := by
      rw [← hn]; exact findBy_of_mem hb.props hq'
    cases hf : findBy (fun x : ObjectTypeDef => x.name) q.objectType ots with
    | none =>
      rw [hf] at hv
      simp only [Option.map_none, Option.getD_none] at hv
      rw [accepts_empty_type] at hv; cases hv
    | some ot =>
      obtain ⟨hotm, hotn⟩ := findBy_some hf
      obtain ⟨ot', hot'm, hot'n, hrel⟩ := ho.up ot hotm
      have hf' : findBy (fun x : ObjectTypeDef => x.name) q'.objectType ots' = some ot' := by
        rw [hot, ← hotn, ← hot'n]; exact findBy_of_mem ho.nodup' hot'm
      have hi : infoOf sem cls ots a q.name v =
          ⟨(cls v).1, (cls v).2.1, (cls v).2.2, ot.regexHard.map (sem.«matches» · v)⟩ := by
        simp [infoOf, regexOfProp, fq, hf]
      have hi' : infoOf sem cls ots' b q.name v =
          ⟨(cls v).1, (cls v).2.1, (cls v).2.2, ot'.regexHard.map (sem.«matches» · v)⟩ := by
        simp [infoOf, regexOfProp, fq', hf']
      rw [hf, hi] at hv
      rw [hf', hi']
      simp only [Option.map_some, Option.getD_some] at hv ⊢
      rcases hrel with rfl | hlt
      · exact hv
      · exact objectType_upgrade_value_space sem ot ot' hlt _ _ _ v hv
  added := by
    intro p' hp'
    simp only [gateType, List.mem_map] at hp'
    obtain ⟨q', hq', rfl⟩ := hp'
    rcases he.added q' hq' with ⟨q, hq, hn⟩ | hopt
    · left
      exact ⟨_, List.mem_map_of_mem (f := gProp ots) hq, hn⟩
    · exact Or.inr hopt
  atts := by
    intro x hx
    simp only [gateType, List.mem_map] at hx
    obtain ⟨y, hy, rfl⟩ := hx
    obtain ⟨y', hy', hn, henc⟩ := he.atts y hy
    exact ⟨_, List.mem_map_of_mem (f := gAtt) hy', hn, by simp only [gAtt, henc]⟩

/-- C10: every event that is valid under the old definitions is valid under an accepted upgrade
of the event type and of the object types it uses. -/
theorem accepted_upgrade_keeps_events_valid (sem : RegexSem) (cls : String → Bool × Bool × Bool)
    (ots ots' : List ObjectTypeDef) (a b : EventTypeDef) (ha : EtWF a) (hb : EtWF b) (ho : OntUp ots ots')
    (h : b = a ∨ cmpEventType a b = .lt) (e : Event) (hv : validUnder sem cls ots a e = true) :
    validUnder sem cls ots' b e = true := by
  have he : EtUp a b := by
    rcases h with rfl | h
    · exact etUp_refl _
    · exact eventType_upgrade_facts a b ha h
  exact gate_mono _ _ _ _ (upgrade_GUp sem cls ots ots' a b ha hb ho he) e hv

/-! ### the sticky hash -/

theorem contains_hashed_iff (a : EventTypeDef) (ha : EtWF a) (q : PropDef) (hq : q ∈ a.props) :
    (hashedOfType a).contains q.name = true ↔ q.merge = "match" := by
  unfold hashedOfType
  simp only [List.contains_iff_mem, List.mem_map, List.mem_filter, beq_iff_eq]
  constructor
  · rintro ⟨q2, ⟨hq2, hm⟩, hn⟩
    have := nodup_key_inj (fun x : PropDef => x.name) a.props ha.props q2 hq2 q hq hn
    rw [← this]; exact hm
  · intro hm; exact ⟨q, ⟨hq, hm⟩, rfl⟩

/-- every (property, object) pair of a valid event belongs to a declared property -/
theorem declared_of_valid (sem : RegexSem) (cls : String → Bool × Bool × Bool) (ots : List ObjectTypeDef)
    (a : EventTypeDef) (e : Event) (hv : validUnder sem cls ots a e = true) (pv : String × String)
    (hp : pv ∈ e.pairs) : ∃ q ∈ a.props, q.name = pv.1 := by
  unfold validUnder at hv
  rw [EdxmlProps.C03.gate_iff] at hv
  obtain ⟨_, _, _, h4, _⟩ := hv
  unfold Event.pairs at hp
  simp only [List.mem_flatMap, List.mem_map] at hp
  obtain ⟨nv, hnv, v, hvm, rfl⟩ := hp
  have hok := h4 nv hnv
  unfold propOk at hok
  cases hf : (gateType ots a).props.find? (·.name == nv.1) with
  | none =>
    rw [hf] at hok
    simp only [List.isEmpty_iff] at hok
    rw [hok] at hvm; cases hvm
  | some p =>
    have hpm := List.mem_of_find?_eq_some hf
    have hpn : p.name = nv.1 := by simpa using List.find?_some hf
    simp only [gateType, List.mem_map] at hpm
    obtain ⟨q, hq, rfl⟩ := hpm
    exact ⟨q, hq, hpn⟩

/-- C10: an event that is valid under the old definition keeps its sticky hash under an accepted
upgrade (the merge strategies of existing properties are frozen; the event has no objects of added
properties). -/
theorem accepted_upgrade_keeps_hash (sem : RegexSem) (cls : String → Bool × Bool × Bool)
    (ots : List ObjectTypeDef) (a b : EventTypeDef) (ha : EtWF a) (hb : EtWF b)
    (h : cmpEventType a b = .lt) (e : Event) (hv : validUnder sem cls ots a e = true) :
    hashInput (hashedOfType b) e = hashInput (hashedOfType a) e := by
  have he := eventType_upgrade_facts a b ha h
  unfold hashInput objStrings
  have : (e.pairs.filter fun pv => (hashedOfType b).contains pv.1) = e.pairs.filter fun pv => (hashedOfType a).contains pv.1 := by
    apply List.filter_congr
    intro pv hpv
    obtain ⟨q, hq, hn⟩ := declared_of_valid sem cls ots a e hv pv hpv
    obtain ⟨q', hq', hn', _, hm, _⟩ := he.props q hq
    have e1 := contains_hashed_iff a ha q hq
    have e2 := contains_hashed_iff b hb q' hq'
    rw [hn] at e1
    rw [hn', hn, hm] at e2
    cases h1 : (hashedOfType a).contains pv.1 <;> cases h2 : (hashedOfType b).contains pv.1 <;> simp_all
  rw [this]

/-- C10: merging colliding events that are valid under the old definition gives the same result under an
accepted upgrade of the event type: the same object sets for every property, the same parents, or
the same error -/
theorem accepted_upgrade_keeps_merge (sem : RegexSem) (cls : String → Bool × Bool × Bool)
    (ots : List ObjectTypeDef) (a b : EventTypeDef) (ha : EtWF a) (hb : EtWF b)
    (h : cmpEventType a b = .lt) (vp : Option String) (es : List Event)
    (hv : ∀ e ∈ es, validUnder sem cls ots a e = true) :
    (∀ r, mergeEvents (mergeSpecs ots a) vp es = .ok r → ∃ r', mergeEvents (mergeSpecs ots b) vp es = .ok r' ∧
        (∀ p, r'.objects p = r.objects p) ∧ r'.parents = r.parents ∧ r'.type = r.type ∧ r'.source = r.source ∧ r'.atts = r.atts) ∧
    (∀ err, mergeEvents (mergeSpecs ots a) vp es = .error err → mergeEvents (mergeSpecs ots b) vp es = .error err) := by
  have he := eventType_upgrade_facts a b ha h
  have names : ∀ (et : EventTypeDef), (mergeSpecs ots et).map (·.name) = et.props.map (·.name) := by
    intro et; simp [mergeSpecs, List.map_map, Function.comp_def]
  have old_kept : ∀ p ∈ a.props, ∃ p' ∈ b.props, p'.name = p.name ∧
      (⟨p'.name, strategyOf p'.merge, numericDt (((findBy (·.name) p'.objectType ots).map (·.dataType)).getD "")⟩ : PropSpec) =
      ⟨p.name, strategyOf p.merge, numericDt (((findBy (·.name) p.objectType ots).map (·.dataType)).getD "")⟩ := by
    intro p hp
    obtain ⟨p', hp', hn, ho, hm, _⟩ := he.props p hp
    exact ⟨p', hp', hn, by rw [hn, ho, hm]⟩
  apply merge_spec_extension (mergeSpecs ots a) (mergeSpecs ots b) (by rw [names]; exact hb.props)
  · intro s hs
    simp only [mergeSpecs, List.mem_map] at hs ⊢
    obtain ⟨p, hp, rfl⟩ := hs
    obtain ⟨p', hp', _, heq⟩ := old_kept p hp
    exact ⟨p', hp', heq⟩
  · intro s' hs'
    simp only [mergeSpecs, List.mem_map] at hs'
    obtain ⟨p', hp', rfl⟩ := hs'
    by_cases hex : ∃ p ∈ a.props, p.name = p'.name
    · left
      obtain ⟨p, hp, hpn⟩ := hex
      obtain ⟨p'', hp'', hn'', heq⟩ := old_kept p hp
      have : p'' = p' := nodup_map_inj _ b.props hb.props p'' hp'' p' hp' (by rw [hn'', hpn])
      subst this
      simp only [mergeSpecs, List.mem_map]
      exact ⟨p, hp, heq.symm⟩
    · right
      intro e hee
      apply objects_absent_pairs
      intro pv hpv hname
      obtain ⟨q, hq, hqn⟩ := declared_of_valid sem cls ots a e (hv e hee) pv hpv
      exact hex ⟨q, hq, by rw [hqn]; exact hname⟩
  · rw [names]; exact ha.props

/-! ### rejected changes -/

/-- making an optional property mandatory, a multi-valued property single-valued, changing the
merge strategy or the object type of a property is never an accepted upgrade -/
theorem restricting_property_rejected (va vb : Nat) (p p' : PropDef)
    (h : (p.optional = true ∧ p'.optional = false) ∨ (p.multivalued = true ∧ p'.multivalued = false) ∨
      p.merge ≠ p'.merge ∨ p.objectType ≠ p'.objectType) : cmpProp va vb p p' ≠ .lt := by
  intro hl
  obtain ⟨_, _, pv⟩ := (cmpGen_lt_iff _ p p' _ _).mp hl
  simp only [propFlags_nf, ap_fields, Bool.and_eq_true, beq_iff_eq, Bool.and_true, Bool.or_eq_true] at pv
  obtain ⟨⟨⟨⟨⟨e1, e2⟩, e3⟩, e4⟩, _⟩, _⟩ := pv
  rcases h with ⟨h1, h2⟩ | ⟨h1, h2⟩ | h | h
  · rcases e4 with e | e
    · rw [h1, h2] at e; cases e
    · rw [h2] at e; cases e
  · rcases e3 with e | e
    · rw [h1, h2] at e; cases e
    · rw [h2] at e; cases e
  · exact h e2
  · exact h e1

/-- removing a property, or adding a mandatory one, is never an accepted upgrade -/
theorem removing_property_rejected (a b : EventTypeDef) (ha : EtWF a) (p : PropDef) (hp : p ∈ a.props)
    (hgone : ∀ q ∈ b.props, q.name ≠ p.name) : cmpEventType a b ≠ .lt := by
  intro h
  obtain ⟨q, hq, hn, _⟩ := (eventType_upgrade_facts a b ha h).props p hp
  exact hgone q hq hn

theorem adding_mandatory_property_rejected (a b : EventTypeDef) (ha : EtWF a) (q : PropDef) (hq : q ∈ b.props)
    (hnew : ∀ p ∈ a.props, p.name ≠ q.name) (hm : q.optional = false) : cmpEventType a b ≠ .lt := by
  intro h
  rcases (eventType_upgrade_facts a b ha h).added q hq with ⟨p, hp, hn⟩ | ho
  · exact hnew p hp hn
  · rw [hm] at ho; cases ho

/-! ### Non-vacuity -/

def exOld : EventTypeDef :=
  { name := "t", version := 1, free := [], versionProp := none, seqProp := none, tsStart := none, tsEnd := none,
    parent := none,
    props := [{ name := "p", objectType := "o", merge := "match", optional := false, multivalued := false,
                datetime := false, free := [], assocs := [] }],
    relations := [], attachments := [] }

def exNew : EventTypeDef :=
  { name := "t", version := 2, free := [], versionProp := none, seqProp := none, tsStart := none, tsEnd := none,
    parent := none, relations := [], attachments := [],
    props := [{ name := "p", objectType := "o", merge := "match", optional := true, multivalued := true,
                datetime := false, free := [], assocs := [] },
              { name := "q", objectType := "o", merge := "any", optional := true, multivalued := false,
                datetime := false, free := [], assocs := [] }] }

example : cmpEventType exOld exNew = .lt := by decide
example : cmpObjectType ⟨"o", 1, [], some "a", "enum:a"⟩ ⟨"o", 2, [], some "a|b", "enum:a:b"⟩ = .lt := by decide +kernel

end EdxmlProps.C10
