/-
C18 — EventCollection equivalence is a true semantic equivalence relation.
-/
import EdxmlModel
import EdxmlProps.Lemmas.Stream
import EdxmlProps.C05
import EdxmlProps.C09
namespace EdxmlProps.C18
open Edxml EdxmlProps.C04 EdxmlProps.C05

/-- Event equality is equality of canonical views, hence an equivalence relation. -/
theorem eventEq_equivalence :
    (∀ a, eventEq a a = true) ∧ (∀ a b, eventEq a b = eventEq b a) ∧
    (∀ a b c, eventEq a b = true → eventEq b c = true → eventEq a c = true) := by
  refine ⟨fun a => by simp [eventEq], fun a b => ?_, fun a b c h1 h2 => ?_⟩
  · unfold eventEq
    rw [Bool.eq_iff_iff]; simp only [decide_eq_true_eq]; exact eq_comm
  · unfold eventEq at *
    simp only [decide_eq_true_eq] at *
    exact h1.trans h2

/-- Merging the events of one bucket gives an event of that bucket (any version property). -/
def KeyStableV (key : Event → Bytes) (specs : List PropSpec) (vp : Option String) : Prop :=
  ∀ (h : Bytes) (g : List Event) (r : Event), g ≠ [] → (∀ e ∈ g, key e = h) →
    mergeGroup specs vp g = .ok r → key r = h

/-- What a successful collision resolution looks like, bucket by bucket. -/
theorem resolve_buckets (key : Event → Bytes) (specs : List PropSpec) (vp : Option String)
    (hks : KeyStableV key specs vp) (es R : List Event) (hR : resolveBy key specs vp es = .ok R) (h : Bytes) :
    (h ∈ keysOf key es → ∃ r, mergeGroup specs vp (groupOf key h es) = .ok r ∧ groupOf key h R = [r]) ∧
    (h ∉ keysOf key es → groupOf key h R = []) ∧
    (h ∈ keysOf key R ↔ h ∈ keysOf key es) := by
  have hF : ∀ h r, h ∈ keysOf key es → mergeGroup specs vp (groupOf key h es) = .ok r → key r = h := by
    intro h r hk hr
    have hne : groupOf key h es ≠ [] := fun e => ((groupOf_eq_nil_iff key es h).mp e) hk
    exact hks h _ r hne (fun e he => ((mem_groupOf key es h e).mp he).2) hr
  have pk := perKey_group key (mergeGroup specs vp) es R hR hF h
  refine ⟨pk.1, pk.2, ?_⟩
  constructor
  · intro hk
    apply Classical.byContradiction
    intro hn
    have := pk.2 hn
    exact ((groupOf_eq_nil_iff key R h).mp this) hk
  · intro hk
    obtain ⟨r, _, hg⟩ := pk.1 hk
    apply Classical.byContradiction
    intro hn
    have := (groupOf_eq_nil_iff key R h).mpr hn
    rw [hg] at this; cases this

theorem all_contains_iff (ka kb : List Bytes) :
    (ka.all (kb.contains ·) && kb.all (ka.contains ·)) = true ↔ ∀ h, h ∈ ka ↔ h ∈ kb := by
  simp only [Bool.and_eq_true, List.all_eq_true, List.contains_iff_mem]
  constructor
  · rintro ⟨h1, h2⟩ h; exact ⟨h1 h, h2 h⟩
  · intro h; exact ⟨fun x hx => (h x).mp hx, fun x hx => (h x).mpr hx⟩

/-- **Characterisation.** With both sides resolvable, the verdict is `true` exactly when the
ontologies are equal, both sides have the same buckets (logical events), and in every bucket the
merged events have equal views: same type, source, objects of every property, attachment
identifiers and parents. -/
theorem equiv_true_iff (key : Event → Bytes) (specs : List PropSpec) (vp : Option String)
    (hks : KeyStableV key specs vp) (ontEq : Bool) (a b ra rb : List Event)
    (ha : resolveBy key specs vp a = .ok ra) (hb : resolveBy key specs vp b = .ok rb) :
    equivBy key specs vp ontEq a b = .ok true ↔
      ontEq = true ∧ (∀ h, h ∈ keysOf key a ↔ h ∈ keysOf key b) ∧
      ∀ h ∈ keysOf key a, ∀ x y, mergeGroup specs vp (groupOf key h a) = .ok x →
        mergeGroup specs vp (groupOf key h b) = .ok y → eventView x = eventView y := by
  unfold equivBy
  rw [ha, hb]
  cases ontEq with
  | false => simp
  | true =>
    simp only [Bool.not_true, Bool.false_eq_true, if_false, true_and]
    have A := fun h => resolve_buckets key specs vp hks a ra ha h
    have B := fun h => resolve_buckets key specs vp hks b rb hb h
    by_cases hkeys : (List.all (keysOf key ra) (fun x => (keysOf key rb).contains x) &&
        List.all (keysOf key rb) (fun x => (keysOf key ra).contains x)) = true
    · rw [hkeys]
      simp only [Bool.not_true, Bool.false_eq_true, if_false, Except.ok.injEq]
      have hk := (all_contains_iff _ _).mp hkeys
      have hk' : ∀ h, h ∈ keysOf key a ↔ h ∈ keysOf key b := fun h => by
        rw [← (A h).2.2, ← (B h).2.2]; exact hk h
      constructor
      · intro hall
        refine ⟨hk', ?_⟩
        intro h hh x y hx hy
        have hall' := List.all_eq_true.mp hall h (((A h).2.2).mpr hh)
        obtain ⟨x', hx', hgx⟩ := (A h).1 hh
        obtain ⟨y', hy', hgy⟩ := (B h).1 ((hk' h).mp hh)
        rw [hx] at hx'; rw [hy] at hy'
        cases hx'; cases hy'
        rw [hgx, hgy] at hall'
        simpa [eventEq] using hall'
      · rintro ⟨_, hv⟩
        apply List.all_eq_true.mpr
        intro h hh
        have hha : h ∈ keysOf key a := ((A h).2.2).mp hh
        obtain ⟨x, hx, hgx⟩ := (A h).1 hha
        obtain ⟨y, hy, hgy⟩ := (B h).1 ((hk' h).mp hha)
        rw [hgx, hgy]
        simp only [eventEq, decide_eq_true_eq]
        exact hv h hha x y hx hy
    · have hkf : (List.all (keysOf key ra) (fun x => (keysOf key rb).contains x) &&
          List.all (keysOf key rb) (fun x => (keysOf key ra).contains x)) = false := by
        simpa using hkeys
      rw [hkf]
      simp only [Bool.not_false, if_true, Except.ok.injEq, Bool.false_eq_true, false_iff, not_and]
      intro hk'
      exfalso
      apply hkeys
      apply (all_contains_iff _ _).mpr
      intro h
      rw [(A h).2.2, (B h).2.2]; exact hk' h

/-- The verdict is a Boolean whenever both sides can be resolved (no merge conflict). -/
theorem equiv_total (key : Event → Bytes) (specs : List PropSpec) (vp : Option String) (ontEq : Bool)
    (a b ra rb : List Event) (ha : resolveBy key specs vp a = .ok ra) (hb : resolveBy key specs vp b = .ok rb) :
    ∃ v, equivBy key specs vp ontEq a b = .ok v := by
  unfold equivBy; rw [ha, hb]
  cases ontEq <;> simp only [Bool.not_true, Bool.not_false, if_true, Bool.false_eq_true, if_false]
  · exact ⟨_, rfl⟩
  · split <;> exact ⟨_, rfl⟩

variable (key : Event → Bytes) (specs : List PropSpec) (vp : Option String) (hks : KeyStableV key specs vp)

include hks in
/-- Reflexive. -/
theorem equiv_refl (a ra : List Event) (ha : resolveBy key specs vp a = .ok ra) :
    equivBy key specs vp true a a = .ok true := by
  apply (equiv_true_iff key specs vp hks true a a ra ra ha ha).mpr
  refine ⟨rfl, fun _ => Iff.rfl, ?_⟩
  intro h _ x y hx hy
  rw [hx] at hy; cases hy; rfl

include hks in
/-- Symmetric: both argument orders give the same verdict. -/
theorem equiv_symm (ontEq : Bool) (a b ra rb : List Event)
    (ha : resolveBy key specs vp a = .ok ra) (hb : resolveBy key specs vp b = .ok rb) :
    equivBy key specs vp ontEq a b = equivBy key specs vp ontEq b a := by
  obtain ⟨v, hv⟩ := equiv_total key specs vp ontEq a b ra rb ha hb
  obtain ⟨w, hw⟩ := equiv_total key specs vp ontEq b a rb ra hb ha
  have i1 := equiv_true_iff key specs vp hks ontEq a b ra rb ha hb
  have i2 := equiv_true_iff key specs vp hks ontEq b a rb ra hb ha
  have : (equivBy key specs vp ontEq a b = .ok true) ↔ (equivBy key specs vp ontEq b a = .ok true) := by
    rw [i1, i2]
    constructor
    · rintro ⟨h1, h2, h3⟩
      exact ⟨h1, fun h => (h2 h).symm, fun h hh x y hx hy => (h3 h ((h2 h).mpr hh) y x hy hx).symm⟩
    · rintro ⟨h1, h2, h3⟩
      exact ⟨h1, fun h => (h2 h).symm, fun h hh x y hx hy => (h3 h ((h2 h).mpr hh) y x hy hx).symm⟩
  rw [hv, hw] at this ⊢
  cases v <;> cases w <;> simp_all

include hks in
/-- Transitive. -/
theorem equiv_trans (a b c ra rb rc : List Event)
    (ha : resolveBy key specs vp a = .ok ra) (hb : resolveBy key specs vp b = .ok rb)
    (hc : resolveBy key specs vp c = .ok rc)
    (hab : equivBy key specs vp true a b = .ok true) (hbc : equivBy key specs vp true b c = .ok true) :
    equivBy key specs vp true a c = .ok true := by
  obtain ⟨_, k1, v1⟩ := (equiv_true_iff key specs vp hks true a b ra rb ha hb).mp hab
  obtain ⟨_, k2, v2⟩ := (equiv_true_iff key specs vp hks true b c rb rc hb hc).mp hbc
  apply (equiv_true_iff key specs vp hks true a c ra rc ha hc).mpr
  refine ⟨rfl, fun h => (k1 h).trans (k2 h), ?_⟩
  intro h hh x z hx hz
  have hhb := (k1 h).mp hh
  obtain ⟨y, hy, _⟩ := (resolve_buckets key specs vp hks b rb hb h).1 hhb
  exact (v1 h hh x y hx hy).trans (v2 h hhb y z hy hz)

include hks in
/-- Never reported when a logical event exists on one side only. -/
theorem equiv_false_of_missing_event (ontEq : Bool) (a b ra rb : List Event)
    (ha : resolveBy key specs vp a = .ok ra) (hb : resolveBy key specs vp b = .ok rb)
    (h : Bytes) (hh : (h ∈ keysOf key a ∧ h ∉ keysOf key b) ∨ (h ∉ keysOf key a ∧ h ∈ keysOf key b)) :
    equivBy key specs vp ontEq a b = .ok false := by
  obtain ⟨v, hv⟩ := equiv_total key specs vp ontEq a b ra rb ha hb
  cases v with
  | false => exact hv
  | true =>
    obtain ⟨_, k, _⟩ := (equiv_true_iff key specs vp hks ontEq a b ra rb ha hb).mp hv
    rcases hh with ⟨h1, h2⟩ | ⟨h1, h2⟩
    · exact absurd ((k h).mp h1) h2
    · exact absurd ((k h).mpr h2) h1

/-- Different ontologies are never equivalent. -/
theorem equiv_false_of_ontology (a b : List Event) : equivBy key specs vp false a b = .ok false := rfl

theorem mapE_total {α β ε} (f : α → Except ε β) : ∀ (l : List α), (∀ x ∈ l, ∃ y, f x = .ok y) →
    ∃ R, mapE f l = .ok R
  | [], _ => ⟨[], rfl⟩
  | x :: xs, h => by
    obtain ⟨y, hy⟩ := h x (by simp)
    obtain ⟨R, hR⟩ := mapE_total f xs (fun z hz => h z (List.mem_cons_of_mem _ hz))
    exact ⟨y :: R, by simp only [mapE, hy, hR]⟩

include hks in
/-- A collection is equivalent to its collision-resolved form (as documented). -/
theorem equiv_resolved (a ra : List Event) (ha : resolveBy key specs vp a = .ok ra) :
    equivBy key specs vp true a ra = .ok true := by
  have A := fun h => resolve_buckets key specs vp hks a ra ha h
  -- the resolved form resolves to itself: every bucket holds one event
  have hra : ∃ rra, resolveBy key specs vp ra = .ok rra := by
    apply mapE_total
    intro h hh
    obtain ⟨r, _, hg⟩ := (A h).1 (((A h).2.2).mp hh)
    exact ⟨r, by rw [hg]; rfl⟩
  obtain ⟨rra, hrra⟩ := hra
  apply (equiv_true_iff key specs vp hks true a ra ra rra ha hrra).mpr
  refine ⟨rfl, fun h => ((A h).2.2).symm, ?_⟩
  intro h hh x y hx hy
  obtain ⟨r, hr, hg⟩ := (A h).1 hh
  rw [hg] at hy
  simp only [mergeGroup, Except.ok.injEq] at hy
  rw [hx] at hr; cases hr; rw [hy]

/-! ### Reordering -/

theorem filterMap_congr' {α β} {f g : α → Option β} : ∀ (l : List α), (∀ x ∈ l, f x = g x) →
    l.filterMap f = l.filterMap g
  | [], _ => rfl
  | x :: xs, h => by
    simp only [List.filterMap_cons]
    rw [h x (by simp), filterMap_congr' xs (fun y hy => h y (List.mem_cons_of_mem _ hy))]

theorem mergeGroup_nil (specs : List PropSpec) (vp : Option String) :
    mergeGroup specs vp [] = .error .empty := by
  cases vp <;> rfl

theorem view_props_congr (r₁ r₂ : Event) (hn : r₁.props.map (·.1) = r₂.props.map (·.1))
    (ho : ∀ n ∈ r₁.props.map (·.1), r₁.objects n = r₂.objects n) :
    (eventView r₁).props = (eventView r₂).props := by
  simp only [eventView]
  rw [← hn]
  apply filterMap_congr'
  intro n hnm
  have : n ∈ r₁.props.map (·.1) := (mem_canonS n _).mp hnm
  rw [ho n this]

/-- Merging a bucket in another order gives an equal event, when every property is order-free and
the instances share type, source and attachments. -/
theorem merge_perm_view (hn : (specs.map (·.name)).Nodup) (g₁ g₂ : List Event) (hp : g₁.Perm g₂)
    (r₁ r₂ : Event) (h₁ : mergeEvents specs vp g₁ = .ok r₁) (h₂ : mergeEvents specs vp g₂ = .ok r₂)
    (hof : ∀ s ∈ specs, OrderFree vp g₁ s)
    (hsame : ∀ e ∈ g₁, ∀ e' ∈ g₁, e.type = e'.type ∧ e.source = e'.source ∧ e.atts = e'.atts) :
    eventView r₁ = eventView r₂ := by
  obtain ⟨f₁, t₁, hv₁, hr₁⟩ := merge_ok_shape specs vp g₁ r₁ h₁
  obtain ⟨f₂, t₂, hv₂, hr₂⟩ := merge_ok_shape specs vp g₂ r₂ h₂
  have hf₁ : f₁ ∈ g₁ := (mem_versionOrder vp g₁ f₁).mp (by rw [hv₁]; simp)
  have hf₂ : f₂ ∈ g₁ := hp.mem_iff.mpr ((mem_versionOrder vp g₂ f₂).mp (by rw [hv₂]; simp))
  have hs := hsame f₁ hf₁ f₂ hf₂
  have hpar := (merge_perm specs hn vp g₁ g₂ hp).2 r₁ r₂ h₁ h₂
  have hprops : (eventView r₁).props = (eventView r₂).props := by
    apply view_props_congr
    · rw [hr₁, hr₂]; simp [List.map_map, Function.comp_def]
    · intro n hnm
      have : n ∈ specs.map (·.name) := by
        rw [hr₁] at hnm; simpa [List.map_map, Function.comp_def] using hnm
      obtain ⟨s, hs', rfl⟩ := List.mem_map.mp this
      exact hpar.2 s hs' (hof s hs')
  have e1 : (eventView r₁).type = (eventView r₂).type := by
    simp only [eventView]; rw [hr₁, hr₂]; exact hs.1
  have e2 : (eventView r₁).source = (eventView r₂).source := by
    simp only [eventView]; rw [hr₁, hr₂]; exact hs.2.1
  have e3 : (eventView r₁).attIds = (eventView r₂).attIds := by
    have : r₁.atts = r₂.atts := by rw [hr₁, hr₂]; exact hs.2.2
    simp only [eventView]
    rw [this]
  have e4 : (eventView r₁).parents = (eventView r₂).parents := by
    simp only [eventView]; rw [hpar.1]
  cases hv : eventView r₁; cases hw : eventView r₂
  rw [hv, hw] at hprops e1 e2 e3 e4
  simp only at hprops e1 e2 e3 e4
  rw [hprops, e1, e2, e3, e4]

include hks in
/-- **Reordering**: a collection and any permutation of it are equivalent, when within each bucket
every property is order-free and the instances share type, source and attachments. -/
theorem equiv_perm (hn : (specs.map (·.name)).Nodup) (a b ra rb : List Event) (hp : a.Perm b)
    (ha : resolveBy key specs vp a = .ok ra) (hb : resolveBy key specs vp b = .ok rb)
    (hof : ∀ h, ∀ s ∈ specs, OrderFree vp (groupOf key h a) s)
    (hsame : ∀ h, ∀ e ∈ groupOf key h a, ∀ e' ∈ groupOf key h a,
      e.type = e'.type ∧ e.source = e'.source ∧ e.atts = e'.atts) :
    equivBy key specs vp true a b = .ok true := by
  apply (equiv_true_iff key specs vp hks true a b ra rb ha hb).mpr
  refine ⟨rfl, ?_, ?_⟩
  · intro h
    rw [mem_keysOf, mem_keysOf]
    constructor
    · rintro ⟨e, he, hk⟩; exact ⟨e, hp.mem_iff.mp he, hk⟩
    · rintro ⟨e, he, hk⟩; exact ⟨e, hp.mem_iff.mpr he, hk⟩
  · intro h hh x y hx hy
    have hg : (groupOf key h a).Perm (groupOf key h b) := hp.filter _
    match hga : groupOf key h a, hgb : groupOf key h b with
    | [], _ => rw [hga, mergeGroup_nil] at hx; cases hx
    | [e], gb =>
      rw [hga, hgb] at hg
      have : gb = [e] := (List.perm_singleton.mp hg.symm)
      rw [hga] at hx; rw [hgb, this] at hy
      simp only [mergeGroup, Except.ok.injEq] at hx hy
      rw [← hx, ← hy]
    | e :: e2 :: t, gb =>
      rw [hga, hgb] at hg
      have hlen : gb.length = (e :: e2 :: t).length := hg.length_eq.symm
      match gb, hlen with
      | u :: u2 :: w, _ =>
        rw [hga] at hx; rw [hgb] at hy
        have hx' : mergeEvents specs vp (e :: e2 :: t) = .ok x := hx
        have hy' : mergeEvents specs vp (u :: u2 :: w) = .ok y := hy
        have hof' := hof h; rw [hga] at hof'
        have hsame' := hsame h; rw [hga] at hsame'
        exact merge_perm_view specs vp hn _ _ hg x y hx' hy' hof' hsame'

/-! ### with the ontology comparison of C09 in place of an input bit -/

/-- the outcome of `a.is_equivalent_of(b)` when the collections hold the ontologies `A` and `B`: the
ontology comparison comes first and may itself be refused (definitions in conflict) -/
inductive EquivOutcome
  | ontologyConflict
  | mergeConflict (e : MergeErr)
  | verdict (b : Bool)

def equivFull (key : Event → Bytes) (specs : List PropSpec) (vp : Option String) (A B : Edxml.Ont.OntologyDef)
    (a b : List Event) : EquivOutcome :=
  match Edxml.Ont.ontEq A B with
  | .conflict => .ontologyConflict
  | .different => .verdict false
  | .equal => match equivBy key specs vp true a b with
    | .ok v => .verdict v
    | .error e => .mergeConflict e

include hks in
/-- **C18 with C09: equivalence is symmetric, the ontologies included**: for well-formed ontologies
and collections that resolve, `a.is_equivalent_of(b)` and `b.is_equivalent_of(a)` have the same
outcome — the same verdict, or the ontology conflict from both sides -/
theorem equivFull_symm (A B : Edxml.Ont.OntologyDef) (hA : EdxmlProps.C09.OntWF A) (hB : EdxmlProps.C09.OntWF B)
    (a b ra rb : List Event) (ha : resolveBy key specs vp a = .ok ra) (hb : resolveBy key specs vp b = .ok rb) :
    equivFull key specs vp A B a b = equivFull key specs vp B A b a := by
  unfold equivFull
  rw [EdxmlProps.C09.ontEq_symm A B hA hB, equiv_symm key specs vp hks true a b ra rb ha hb]

/-- collections whose ontologies differ are never equivalent, whatever events they hold -/
theorem equivFull_false_of_ontology (A B : Edxml.Ont.OntologyDef) (a b : List Event)
    (h : Edxml.Ont.ontEq A B = .different) : equivFull key specs vp A B a b = .verdict false := by
  unfold equivFull
  rw [h]

/-! ### Non-vacuity -/

example : eventEq exE1 exE1 = true := by decide +kernel
example : eventEq exE1 exE2 = false := by decide +kernel

end EdxmlProps.C18
