/-
C02. Writer output is always readable; write/parse round trips are lossless.

* Character data: what lxml writes for element text and attribute values (`escapeText`,
  `escapeAttr`) is read back unchanged by an XML parser (`unescapeText`, `unescapeAttr`), for every
  string — markup characters, carriage returns, line feeds, tabs included.
* Streams: whatever sequence of `add_ontology` / `add_event` / `add_foreign_element` calls is made on
  a validating writer (model: `Stream/Writer.lean`), the children it wrote are accepted by the
  validating parser machine of C14 without error, which delivers exactly the written events, in
  order.
-/
import EdxmlModel.Stream.Writer
import EdxmlProps.C15
namespace EdxmlProps.C02
open Edxml

/-! ### character data -/

theorem escapeText_other (c : Char) (r : List Char) (h1 : c ≠ '&') (h2 : c ≠ '<') (h3 : c ≠ '>') (h4 : c ≠ '\r') :
    escapeText (c :: r) = c :: escapeText r := by
  rw [escapeText]
  all_goals first | exact h1 | exact h2 | exact h3 | exact h4 | (intro e; simp_all)

theorem unescapeText_other (c : Char) (r : List Char) (h1 : c ≠ '&') (h2 : c ≠ '\r') :
    unescapeText (c :: r) = c :: unescapeText r := by
  rw [unescapeText]
  all_goals (intros; simp_all)

/-- C02: element text survives serialization and parsing, whatever characters it holds -/
theorem unescapeText_escapeText : ∀ s : List Char, unescapeText (escapeText s) = s
  | [] => rfl
  | c :: r => by
    have ih := unescapeText_escapeText r
    by_cases h1 : c = '&'
    · subst h1; simp [escapeText, unescapeText, ih]
    by_cases h2 : c = '<'
    · subst h2; simp [escapeText, unescapeText, ih]
    by_cases h3 : c = '>'
    · subst h3; simp [escapeText, unescapeText, ih]
    by_cases h4 : c = '\r'
    · subst h4; simp [escapeText, unescapeText, ih]
    rw [escapeText_other c r h1 h2 h3 h4, unescapeText_other c _ h1 h4, ih]

theorem escapeAttr_other (c : Char) (r : List Char) (h1 : c ≠ '&') (h2 : c ≠ '<') (h3 : c ≠ '>') (h4 : c ≠ '"')
    (h5 : c ≠ '\n') (h6 : c ≠ '\t') (h7 : c ≠ '\r') : escapeAttr (c :: r) = c :: escapeAttr r := by
  rw [escapeAttr]
  all_goals first | exact h1 | exact h2 | exact h3 | exact h4 | exact h5 | exact h6 | exact h7 | (intro e; simp_all)

theorem unescapeAttr_other (c : Char) (r : List Char) (h1 : c ≠ '&') (h2 : c ≠ '\r') (h3 : c ≠ '\n') (h4 : c ≠ '\t') :
    unescapeAttr (c :: r) = c :: unescapeAttr r := by
  rw [unescapeAttr]
  all_goals (intros; simp_all)

/-- C02: attribute values (event type, source, parents, attachment ids, foreign attributes)
survive as well: white space that attribute value normalisation would turn into spaces is written
as character references -/
theorem unescapeAttr_escapeAttr : ∀ s : List Char, unescapeAttr (escapeAttr s) = s
  | [] => rfl
  | c :: r => by
    have ih := unescapeAttr_escapeAttr r
    by_cases h1 : c = '&'
    · subst h1; simp [escapeAttr, unescapeAttr, ih]
    by_cases h2 : c = '<'
    · subst h2; simp [escapeAttr, unescapeAttr, ih]
    by_cases h3 : c = '>'
    · subst h3; simp [escapeAttr, unescapeAttr, ih]
    by_cases h4 : c = '"'
    · subst h4; simp [escapeAttr, unescapeAttr, ih]
    by_cases h5 : c = '\n'
    · subst h5; simp [escapeAttr, unescapeAttr, ih]
    by_cases h6 : c = '\t'
    · subst h6; simp [escapeAttr, unescapeAttr, ih]
    by_cases h7 : c = '\r'
    · subst h7; simp [escapeAttr, unescapeAttr, ih]
    rw [escapeAttr_other c r h1 h2 h3 h4 h5 h6 h7, unescapeAttr_other c _ h1 h7 h5 h6, ih]

/-- escaped text never contains markup that would end the element or start another one -/
theorem escapeText_no_markup : ∀ s : List Char, '<' ∉ escapeText s
  | [] => by simp [escapeText]
  | c :: r => by
    have ih := escapeText_no_markup r
    by_cases h1 : c = '&'
    · subst h1; simp [escapeText, ih]
    by_cases h2 : c = '<'
    · subst h2; simp [escapeText, ih]
    by_cases h3 : c = '>'
    · subst h3; simp [escapeText, ih]
    by_cases h4 : c = '\r'
    · subst h4; simp [escapeText, ih]
    rw [escapeText_other c r h1 h2 h3 h4]
    simp only [List.mem_cons, not_or]
    exact ⟨fun e => h2 e.symm, ih⟩

/-! ### streams -/

def hasOnt (items : List Item) : Bool := items.any fun it => match it with | .ont .. => true | _ => false

/-- the parser has processed exactly what the writer wrote -/
structure Agree (reg : Registry) (w : WState) (p : PState) : Prop where
  ont : p.ont = if hasOnt w.out then some (w.types, w.sources) else none
  empty : hasOnt w.out = false → w.types = [] ∧ w.sources = []
  delivered : reg.overridden = true → reg.typeH = [] → reg.srcH = [] →
    p.log.filterMap EdxmlProps.C15.deliveredEvent = eventIdxs w.out

theorem dispatch_overridden (reg : Registry) (pm : List (String × List String)) (i : Nat) (t s : String)
    (h1 : reg.overridden = true) (h2 : reg.typeH = []) (h3 : reg.srcH = []) :
    dispatch reg pm i t s = [.fallback i] := by
  simp [dispatch, handlersFor, h1, h2, h3, lookupD]

theorem eventIdxs_append (a b : List Item) : eventIdxs (a ++ b) = eventIdxs a ++ eventIdxs b := by
  simp [eventIdxs, List.filterMap_append]

theorem pstep_ont_ok (reg : Registry) (p : PState) (ts ss : List String) :
    (pstep reg p (.ont .ok ts ss)).2 = none ∧
    (pstep reg p (.ont .ok ts ss)).1.ont =
      some (canonS ((p.ont.getD ([], [])).1 ++ ts), canonS ((p.ont.getD ([], [])).2 ++ ss)) ∧
    (pstep reg p (.ont .ok ts ss)).1.log = p.log ++
      [Callback.ontology (canonS ((p.ont.getD ([], [])).1 ++ ts)) (canonS ((p.ont.getD ([], [])).2 ++ ss))] := by
  simp only [pstep]
  split <;> simp [processOnt]

theorem pstep_event_ok (reg : Registry) (p : PState) (i : Nat) (t src : String) (g : Bool) (ts ss : List String)
    (ho : p.ont = some (ts, ss)) (h1 : ss.contains src = true) (h2 : ts.contains t = true)
    (hg : (reg.validate && !g) = false) :
    (pstep reg p (.event i t src g)).2 = none ∧ (pstep reg p (.event i t src g)).1.ont = p.ont ∧
    (pstep reg p (.event i t src g)).1.log = p.log ++ dispatch reg p.patMap i t src := by
  simp only [pstep, ho, h1, h2, hg, Bool.not_true, Bool.false_eq_true, if_false]
  split <;> simp [ho]

theorem pstep_foreign_ok (reg : Registry) (p : PState) (i : Nat) :
    (pstep reg p (.foreign i)).2 = none ∧ (pstep reg p (.foreign i)).1.ont = p.ont ∧
    (pstep reg p (.foreign i)).1.log = p.log ++ [Callback.foreign i] := by
  simp [pstep]

theorem hasOnt_append (a b : List Item) : hasOnt (a ++ b) = (hasOnt a || hasOnt b) := by
  simp [hasOnt, List.any_append]

/-- one accepted writer call, then the parser reads the child it wrote: no error, still in agreement -/
theorem step_agree (reg : Registry) (v : Bool) (hv : reg.validate = true → v = true) (w w' : WState) (p : PState)
    (op : WOp) (hs : wstep v w op = (w', none)) (ha : Agree reg w p) :
    ∃ it, w'.out = w.out ++ [it] ∧ (pstep reg p it).2 = none ∧ Agree reg w' (pstep reg p it).1 := by
  cases op with
  | addForeign i =>
    simp only [wstep, Prod.mk.injEq, and_true] at hs
    subst hs
    obtain ⟨e1, e2, e3⟩ := pstep_foreign_ok reg p i
    refine ⟨.foreign i, rfl, e1, ?_, ?_, ?_⟩
    · rw [e2, ha.ont]; simp [hasOnt_append, hasOnt]
    · intro h; apply ha.empty; simpa [hasOnt_append, hasOnt] using h
    · intro h1 h2 h3
      rw [e3, List.filterMap_append, ha.delivered h1 h2 h3, eventIdxs_append]
      simp [eventIdxs, EdxmlProps.C15.deliveredEvent]
  | addOntology ts ss ok =>
    cases ok with
    | false => simp [wstep] at hs
    | true =>
      simp only [wstep, if_true, Prod.mk.injEq, and_true] at hs
      subst hs
      have hcur : p.ont.getD ([], []) = (w.types, w.sources) := by
        rw [ha.ont]
        cases hany : hasOnt w.out with
        | true => simp
        | false =>
          obtain ⟨e1, e2⟩ := ha.empty hany
          simp [e1, e2]
      obtain ⟨e1, e2, e3⟩ := pstep_ont_ok reg p ts ss
      refine ⟨.ont .ok ts ss, rfl, e1, ?_, ?_, ?_⟩
      · rw [e2, hcur]; simp [hasOnt_append, hasOnt]
      · intro h; simp [hasOnt_append, hasOnt] at h
      · intro h1 h2 h3
        rw [e3, List.filterMap_append, ha.delivered h1 h2 h3, eventIdxs_append]
        simp [eventIdxs, EdxmlProps.C15.deliveredEvent]
  | addEvent i t src g =>
    simp only [wstep] at hs
    cases c1 : w.sources.contains src with
    | false => rw [c1] at hs; simp at hs
    | true =>
      cases c2 : w.types.contains t with
      | false => rw [c1, c2] at hs; simp at hs
      | true =>
        cases c3 : (v && !g) with
        | true => rw [c1, c2, c3] at hs; simp at hs
        | false =>
          rw [c1, c2, c3] at hs
          simp only [Bool.not_true, Bool.false_eq_true, if_false, Prod.mk.injEq, and_true] at hs
          subst hs
          -- the writer knows the type: it has written an ontology
          have hany : hasOnt w.out = true := by
            cases hh : hasOnt w.out with
            | true => rfl
            | false =>
              have := (ha.empty hh).1
              rw [this] at c2; simp at c2
          have hont : p.ont = some (w.types, w.sources) := by rw [ha.ont, hany]; rfl
          have hgate : (reg.validate && !g) = false := by
            cases hr : reg.validate with
            | false => rfl
            | true => have := hv hr; subst this; simpa using c3
          obtain ⟨e1, e2, e3⟩ := pstep_event_ok reg p i t src g _ _ hont c1 c2 hgate
          refine ⟨.event i t src g, rfl, e1, ?_, ?_, ?_⟩
          · rw [e2, hont]; simp [hasOnt_append, hany]
          · intro h; simp [hasOnt_append, hany] at h
          · intro h1 h2 h3
            rw [e3, List.filterMap_append, ha.delivered h1 h2 h3, eventIdxs_append,
              dispatch_overridden reg _ i t src h1 h2 h3]
            simp [eventIdxs, EdxmlProps.C15.deliveredEvent]

/-- a rejected call leaves the writer as it was -/
theorem rejected_call_writes_nothing (v : Bool) (w w' : WState) (op : WOp) (e : PErr)
    (h : wstep v w op = (w', some e)) : w' = w := by
  cases op with
  | addForeign i => simp [wstep] at h
  | addOntology ts ss ok =>
    cases ok <;> simp [wstep] at h
    exact h.1.symm
  | addEvent i t src g =>
    simp only [wstep] at h
    split at h
    · simp only [Prod.mk.injEq] at h; exact h.1.symm
    · split at h
      · simp only [Prod.mk.injEq] at h; exact h.1.symm
      · split at h
        · simp only [Prod.mk.injEq] at h; exact h.1.symm
        · simp at h

/-- C02: for every session of a validating writer, whatever calls it accepted or rejected, the
children it wrote are read by the validating parser without error, and the parser is left knowing
the ontology the writer knows, having delivered exactly the written events in the order written. -/
theorem written_stream_parses (reg : Registry) (v : Bool) (hv : reg.validate = true → v = true) :
    ∀ (ops : List WOp) (w : WState) (p : PState) (pre : List Item), Agree reg w p → prun reg {} pre = (p, none) →
      w.out = pre →
      ∃ p', prun reg {} (wrun v w ops).out = (p', none) ∧ Agree reg (wrun v w ops) p'
  | [], w, p, pre, ha, hp, hw => ⟨p, by simpa [wrun, hw] using hp, by simpa [wrun] using ha⟩
  | op :: ops, w, p, pre, ha, hp, hw => by
    simp only [wrun, List.foldl_cons]
    cases hs : wstep v w op with
    | mk w' e =>
      cases e with
      | some err =>
        have := rejected_call_writes_nothing v w w' op err hs
        rw [this]
        exact written_stream_parses reg v hv ops w p pre ha hp hw
      | none =>
        obtain ⟨it, hout, hstep, ha'⟩ := step_agree reg v hv w w' p op hs ha
        have hpair : pstep reg p it = ((pstep reg p it).1, none) := Prod.ext rfl hstep
        have hp' : prun reg {} (pre ++ [it]) = ((pstep reg p it).1, none) := by
          rw [prun_append, hp]
          simp only [prun]
          rw [hpair]
        exact written_stream_parses reg v hv ops w' _ (pre ++ [it]) ha' hp' (by rw [hout, hw])

theorem written_stream_parses_from_start (reg : Registry) (v : Bool) (hv : reg.validate = true → v = true)
    (ops : List WOp) :
    ∃ p', prun reg {} (wrun v {} ops).out = (p', none) ∧ Agree reg (wrun v {} ops) p' :=
  written_stream_parses reg v hv ops {} {} [] ⟨rfl, fun _ => ⟨rfl, rfl⟩, fun _ _ _ => rfl⟩ rfl rfl

/-- and nothing the gate rejects was written: every written event was accepted by the writer's gate -/
theorem only_valid_events_written (v : Bool) (hv : v = true) : ∀ (ops : List WOp) (w : WState),
    (∀ it ∈ w.out, ∀ i t s g, it = Item.event i t s g → g = true) →
    ∀ it ∈ (wrun v w ops).out, ∀ i t s g, it = Item.event i t s g → g = true
  | [], w, h => by simpa [wrun] using h
  | op :: ops, w, h => by
    simp only [wrun, List.foldl_cons]
    apply only_valid_events_written v hv ops
    intro it hit i t s g he
    cases op with
    | addForeign k =>
      simp only [wstep, List.mem_append, List.mem_singleton] at hit
      rcases hit with h1 | rfl
      · exact h it h1 i t s g he
      · cases he
    | addOntology ts ss ok =>
      cases ok
      · exact h it (by simpa [wstep] using hit) i t s g he
      · simp only [wstep, if_true, List.mem_append, List.mem_singleton] at hit
        rcases hit with h1 | rfl
        · exact h it h1 i t s g he
        · cases he
    | addEvent k t' s' g' =>
      simp only [wstep] at hit
      split at hit
      · exact h it hit i t s g he
      · split at hit
        · exact h it hit i t s g he
        · split at hit
          · exact h it hit i t s g he
          · rename_i hg
            simp only [List.mem_append, List.mem_singleton] at hit
            rcases hit with h1 | rfl
            · exact h it h1 i t s g he
            · simp only [Item.event.injEq] at he
              obtain ⟨_, _, _, rfl⟩ := he
              subst hv
              simpa using hg

/-! ### Non-vacuity -/

example : unescapeText (escapeText "a<b>&\r\n\t ]]> é".toList) = "a<b>&\r\n\t ]]> é".toList := by decide +kernel
example : unescapeAttr (escapeAttr "a\"b\n\tc\r".toList) = "a\"b\n\tc\r".toList := by decide +kernel
example : (wrun true {} [.addEvent 0 "t" "/s/" true, .addOntology ["t"] ["/s/"] true, .addEvent 1 "t" "/s/" true,
    .addEvent 2 "t" "/s/" false, .addEvent 3 "u" "/s/" true, .addEvent 4 "t" "/s/" true]).out =
    [.ont .ok ["t"] ["/s/"], .event 1 "t" "/s/" true, .event 4 "t" "/s/" true] := by decide +kernel

end EdxmlProps.C02
