/-
C02. Writer output is always readable; write/parse round trips are lossless.

* Character data: what lxml writes for element text and attribute values (`escapeText`,
  `escapeAttr`) is read back unchanged by an XML parser (`unescapeText`, `unescapeAttr`), for every
  string — markup characters, carriage returns, line feeds, tabs included.
* Streams: whatever sequence of `add_ontology` / `add_event` / `add_foreign_element` calls is made on
  a validating writer (model: `Stream/Writer.lean`), the children it wrote are accepted by the
  validating parser machine of C14 without error, which delivers exactly the written events, in
  order.
-/
import EdxmlModel.Stream.Writer
import EdxmlModel.Stream.Filter
import EdxmlProps.C15
import EdxmlProps.Lemmas.Merge
namespace EdxmlProps.C02
open Edxml

/-! ### character data -/

theorem escapeText_other (c : Char) (r : List Char) (h1 : c ≠ '&') (h2 : c ≠ '<') (h3 : c ≠ '>') (h4 : c ≠ '\r') :
    escapeText (c :: r) = c :: escapeText r := by
  rw [escapeText]
  all_goals first | exact h1 | exact h2 | exact h3 | exact h4 | (intro e; simp_all)

theorem unescapeText_other (c : Char) (r : List Char) (h1 : c ≠ '&') (h2 : c ≠ '\r') :
    unescapeText (c :: r) = c :: unescapeText r := by
  rw [unescapeText]
  all_goals (intros; simp_all)

/-- C02: element text survives serialization and parsing, whatever characters it holds -/
theorem unescapeText_escapeText : ∀ s : List Char, unescapeText (escapeText s) = s
  | [] => rfl
  | c :: r => by
    have ih := unescapeText_escapeText r
    by_cases h1 : c = '&'
    · subst h1; simp [escapeText, unescapeText, ih]
    by_cases h2 : c = '<'
    · subst h2; simp [escapeText, unescapeText, ih]
    by_cases h3 : c = '>'
    · subst h3; simp [escapeText, unescapeText, ih]
    by_cases h4 : c = '\r'
    · subst h4; simp [escapeText, unescapeText, ih]
    rw [escapeText_other c r h1 h2 h3 h4, unescapeText_other c _ h1 h4, ih]

theorem escapeAttr_other (c : Char) (r : List Char) (h1 : c ≠ '&') (h2 : c ≠ '<') (h3 : c ≠ '>') (h4 : c ≠ '"')
    (h5 : c ≠ '\n') (h6 : c ≠ '\t') (h7 : c ≠ '\r') : escapeAttr (c :: r) = c :: escapeAttr r := by
  rw [escapeAttr]
  all_goals first | exact h1 | exact h2 | exact h3 | exact h4 | exact h5 | exact h6 | exact h7 | (intro e; simp_all)

theorem unescapeAttr_other (c : Char) (r : List Char) (h1 : c ≠ '&') (h2 : c ≠ '\r') (h3 : c ≠ '\n') (h4 : c ≠ '\t') :
    unescapeAttr (c :: r) = c :: unescapeAttr r := by
  rw [unescapeAttr]
  all_goals (intros; simp_all)

/-- C02: attribute values (event type, source, parents, attachment ids, foreign attributes)
survive as well: white space that attribute value normalisation would turn into spaces is written
as character references -/
theorem unescapeAttr_escapeAttr : ∀ s : List Char, unescapeAttr (escapeAttr s) = s
  | [] => rfl
  | c :: r => by
    have ih := unescapeAttr_escapeAttr r
    by_cases h1 : c = '&'
    · subst h1; simp [escapeAttr, unescapeAttr, ih]
    by_cases h2 : c = '<'
    · subst h2; simp [escapeAttr, unescapeAttr, ih]
    by_cases h3 : c = '>'
    · subst h3; simp [escapeAttr, unescapeAttr, ih]
    by_cases h4 : c = '"'
    · subst h4; simp [escapeAttr, unescapeAttr, ih]
    by_cases h5 : c = '\n'
    · subst h5; simp [escapeAttr, unescapeAttr, ih]
    by_cases h6 : c = '\t'
    · subst h6; simp [escapeAttr, unescapeAttr, ih]
    by_cases h7 : c = '\r'
    · subst h7; simp [escapeAttr, unescapeAttr, ih]
    rw [escapeAttr_other c r h1 h2 h3 h4 h5 h6 h7, unescapeAttr_other c _ h1 h7 h5 h6, ih]

/-- escaped text never contains markup that would end the element or start another one -/
theorem escapeText_no_markup : ∀ s : List Char, '<' ∉ escapeText s
  | [] => by simp [escapeText]
  | c :: r => by
    have ih := escapeText_no_markup r
    by_cases h1 : c = '&'
    · subst h1; simp [escapeText, ih]
    by_cases h2 : c = '<'
    · subst h2; simp [escapeText, ih]
    by_cases h3 : c = '>'
    · subst h3; simp [escapeText, ih]
    by_cases h4 : c = '\r'
    · subst h4; simp [escapeText, ih]
    rw [escapeText_other c r h1 h2 h3 h4]
    simp only [List.mem_cons, not_or]
    exact ⟨fun e => h2 e.symm, ih⟩

/-! ### streams -/

def hasOnt (items : List Item) : Bool := items.any fun it => match it with | .ont .. => true | _ => false

/-- the parser has processed exactly what the writer wrote -/
structure Agree (reg : Registry) (w : WState) (p : PState) : Prop where
  ont : p.ont = if hasOnt w.out then some (w.types, w.sources) else none
  empty : hasOnt w.out = false → w.types = [] ∧ w.sources = []
  delivered : reg.overridden = true → reg.typeH = [] → reg.srcH = [] →
    p.log.filterMap EdxmlProps.C15.deliveredEvent = eventIdxs w.out

theorem dispatch_overridden (reg : Registry) (pm : List (String × List String)) (i : Nat) (t s : String)
    (h1 : reg.overridden = true) (h2 : reg.typeH = []) (h3 : reg.srcH = []) :
    dispatch reg pm i t s = [.fallback i] := by
  simp [dispatch, handlersFor, h1, h2, h3, lookupD]

theorem eventIdxs_append (a b : List Item) : eventIdxs (a ++ b) = eventIdxs a ++ eventIdxs b := by
  simp [eventIdxs, List.filterMap_append]

theorem pstep_ont_ok (reg : Registry) (p : PState) (ts ss : List String) :
    (pstep reg p (.ont .ok ts ss)).2 = none ∧
    (pstep reg p (.ont .ok ts ss)).1.ont =
      some (canonS ((p.ont.getD ([], [])).1 ++ ts), canonS ((p.ont.getD ([], [])).2 ++ ss)) ∧
    (pstep reg p (.ont .ok ts ss)).1.log = p.log ++
      [Callback.ontology (canonS ((p.ont.getD ([], [])).1 ++ ts)) (canonS ((p.ont.getD ([], [])).2 ++ ss))] := by
  simp only [pstep]
  split <;> simp [processOnt]

theorem pstep_event_ok (reg : Registry) (p : PState) (i : Nat) (t src : String) (g : Bool) (ts ss : List String)
    (ho : p.ont = some (ts, ss)) (h1 : ss.contains src = true) (h2 : ts.contains t = true)
    (hg : (reg.validate && !g) = false) :
    (pstep reg p (.event i t src g)).2 = none ∧ (pstep reg p (.event i t src g)).1.ont = p.ont ∧
    (pstep reg p (.event i t src g)).1.log = p.log ++ dispatch reg p.patMap i t src := by
  simp only [pstep, ho, h1, h2, hg, Bool.not_true, Bool.false_eq_true, if_false]
  split <;> simp [ho]

theorem pstep_foreign_ok (reg : Registry) (p : PState) (i : Nat) :
    (pstep reg p (.foreign i)).2 = none ∧ (pstep reg p (.foreign i)).1.ont = p.ont ∧
    (pstep reg p (.foreign i)).1.log = p.log ++ [Callback.foreign i] := by
  simp [pstep]

theorem hasOnt_append (a b : List Item) : hasOnt (a ++ b) = (hasOnt a || hasOnt b) := by
  simp [hasOnt, List.any_append]

/-- one accepted writer call, then the parser reads the child it wrote: no error, still in agreement -/
theorem step_agree (reg : Registry) (v : Bool) (hv : reg.validate = true → v = true) (w w' : WState) (p : PState)
    (op : WOp) (hs : wstep v w op = (w', none)) (ha : Agree reg w p) :
    ∃ it, w'.out = w.out ++ [it] ∧ (pstep reg p it).2 = none ∧ Agree reg w' (pstep reg p it).1 := by
  cases op with
  | addForeign i =>
    simp only [wstep, Prod.mk.injEq, and_true] at hs
    subst hs
    obtain ⟨e1, e2, e3⟩ := pstep_foreign_ok reg p i
    refine ⟨.foreign i, rfl, e1, ?_, ?_, ?_⟩
    · rw [e2, ha.ont]; simp [hasOnt_append, hasOnt]
    · intro h; apply ha.empty; simpa [hasOnt_append, hasOnt] using h
    · intro h1 h2 h3
      rw [e3, List.filterMap_append, ha.delivered h1 h2 h3, eventIdxs_append]
      simp [eventIdxs, EdxmlProps.C15.deliveredEvent]
  | addOntology ts ss ok =>
    cases ok with
    | false => simp [wstep] at hs
    | true =>
      simp only [wstep, if_true, Prod.mk.injEq, and_true] at hs
      subst hs
      have hcur : p.ont.getD ([], []) = (w.types, w.sources) := by
        rw [ha.ont]
        cases hany : hasOnt w.out with
        | true => simp
        | false =>
          obtain ⟨e1, e2⟩ := ha.empty hany
          simp [e1, e2]
      obtain ⟨e1, e2, e3⟩ := pstep_ont_ok reg p ts ss
      refine ⟨.ont .ok ts ss, rfl, e1, ?_, ?_, ?_⟩
      · rw [e2, hcur]; simp [hasOnt_append, hasOnt]
      · intro h; simp [hasOnt_append, hasOnt] at h
      · intro h1 h2 h3
        rw [e3, List.filterMap_append, ha.delivered h1 h2 h3, eventIdxs_append]
        simp [eventIdxs, EdxmlProps.C15.deliveredEvent]
  | addEvent i t src g =>
    simp only [wstep] at hs
    cases c1 : w.sources.contains src with
    | false => rw [c1] at hs; simp at hs
    | true =>
      cases c2 : w.types.contains t with
      | false => rw [c1, c2] at hs; simp at hs
      | true =>
        cases c3 : (v && !g) with
        | true => rw [c1, c2, c3] at hs; simp at hs
        | false =>
          rw [c1, c2, c3] at hs
          simp only [Bool.not_true, Bool.false_eq_true, if_false, Prod.mk.injEq, and_true] at hs
          subst hs
          -- the writer knows the type: it has written an ontology
          have hany : hasOnt w.out = true := by
            cases hh : hasOnt w.out with
            | true => rfl
            | false =>
              have := (ha.empty hh).1
              rw [this] at c2; simp at c2
          have hont : p.ont = some (w.types, w.sources) := by rw [ha.ont, hany]; rfl
          have hgate : (reg.validate && !g) = false := by
            cases hr : reg.validate with
            | false => rfl
            | true => have := hv hr; subst this; simpa using c3
          obtain ⟨e1, e2, e3⟩ := pstep_event_ok reg p i t src g _ _ hont c1 c2 hgate
          refine ⟨.event i t src g, rfl, e1, ?_, ?_, ?_⟩
          · rw [e2, hont]; simp [hasOnt_append, hany]
          · intro h; simp [hasOnt_append, hany] at h
          · intro h1 h2 h3
            rw [e3, List.filterMap_append, ha.delivered h1 h2 h3, eventIdxs_append,
              dispatch_overridden reg _ i t src h1 h2 h3]
            simp [eventIdxs, EdxmlProps.C15.deliveredEvent]

/-- a rejected call leaves the writer as it was -/
theorem rejected_call_writes_nothing (v : Bool) (w w' : WState) (op : WOp) (e : PErr)
    (h : wstep v w op = (w', some e)) : w' = w := by
  cases op with
  | addForeign i => simp [wstep] at h
  | addOntology ts ss ok =>
    cases ok <;> simp [wstep] at h
    exact h.1.symm
  | addEvent i t src g =>
    simp only [wstep] at h
    split at h
    · simp only [Prod.mk.injEq] at h; exact h.1.symm
    · split at h
      · simp only [Prod.mk.injEq] at h; exact h.1.symm
      · split at h
        · simp only [Prod.mk.injEq] at h; exact h.1.symm
        · simp at h

/-- C02: for every session of a validating writer, whatever calls it accepted or rejected, the
children it wrote are read by the validating parser without error, and the parser is left knowing
the ontology the writer knows, having delivered exactly the written events in the order written. -/
theorem written_stream_parses (reg : Registry) (v : Bool) (hv : reg.validate = true → v = true) :
    ∀ (ops : List WOp) (w : WState) (p : PState) (pre : List Item), Agree reg w p → prun reg {} pre = (p, none) →
      w.out = pre →
      ∃ p', prun reg {} (wrun v w ops).out = (p', none) ∧ Agree reg (wrun v w ops) p'
  | [], w, p, pre, ha, hp, hw => ⟨p, by simpa [wrun, hw] using hp, by simpa [wrun] using ha⟩
  | op :: ops, w, p, pre, ha, hp, hw => by
    simp only [wrun, List.foldl_cons]
    cases hs : wstep v w op with
    | mk w' e =>
      cases e with
      | some err =>
        have := rejected_call_writes_nothing v w w' op err hs
        rw [this]
        exact written_stream_parses reg v hv ops w p pre ha hp hw
      | none =>
        obtain ⟨it, hout, hstep, ha'⟩ := step_agree reg v hv w w' p op hs ha
        have hpair : pstep reg p it = ((pstep reg p it).1, none) := Prod.ext rfl hstep
        have hp' : prun reg {} (pre ++ [it]) = ((pstep reg p it).1, none) := by
          rw [prun_append, hp]
          simp only [prun]
          rw [hpair]
        exact written_stream_parses reg v hv ops w' _ (pre ++ [it]) ha' hp' (by rw [hout, hw])

theorem written_stream_parses_from_start (reg : Registry) (v : Bool) (hv : reg.validate = true → v = true)
    (ops : List WOp) :
    ∃ p', prun reg {} (wrun v {} ops).out = (p', none) ∧ Agree reg (wrun v {} ops) p' :=
  written_stream_parses reg v hv ops {} {} [] ⟨rfl, fun _ => ⟨rfl, rfl⟩, fun _ _ _ => rfl⟩ rfl rfl

/-- and nothing the gate rejects was written: every written event was accepted by the writer's gate -/
theorem only_valid_events_written (v : Bool) (hv : v = true) : ∀ (ops : List WOp) (w : WState),
    (∀ it ∈ w.out, ∀ i t s g, it = Item.event i t s g → g = true) →
    ∀ it ∈ (wrun v w ops).out, ∀ i t s g, it = Item.event i t s g → g = true
  | [], w, h => by simpa [wrun] using h
  | op :: ops, w, h => by
    simp only [wrun, List.foldl_cons]
    apply only_valid_events_written v hv ops
    intro it hit i t s g he
    cases op with
    | addForeign k =>
      simp only [wstep, List.mem_append, List.mem_singleton] at hit
      rcases hit with h1 | rfl
      · exact h it h1 i t s g he
      · cases he
    | addOntology ts ss ok =>
      cases ok
      · exact h it (by simpa [wstep] using hit) i t s g he
      · simp only [wstep, if_true, List.mem_append, List.mem_singleton] at hit
        rcases hit with h1 | rfl
        · exact h it h1 i t s g he
        · cases he
    | addEvent k t' s' g' =>
      simp only [wstep] at hit
      split at hit
      · exact h it hit i t s g he
      · split at hit
        · exact h it hit i t s g he
        · split at hit
          · exact h it hit i t s g he
          · rename_i hg
            simp only [List.mem_append, List.mem_singleton] at hit
            rcases hit with h1 | rfl
            · exact h it h1 i t s g he
            · simp only [Item.event.injEq] at he
              obtain ⟨_, _, _, rfl⟩ := he
              subst hv
              simpa using hg

/-! ### Non-vacuity -/

example : unescapeText (escapeText "a<b>&\r\n\t ]]> é".toList) = "a<b>&\r\n\t ]]> é".toList := by decide +kernel
example : unescapeAttr (escapeAttr "a\"b\n\tc\r".toList) = "a\"b\n\tc\r".toList := by decide +kernel
example : (wrun true {} [.addEvent 0 "t" "/s/" true, .addOntology ["t"] ["/s/"] true, .addEvent 1 "t" "/s/" true,
    .addEvent 2 "t" "/s/" false, .addEvent 3 "u" "/s/" true, .addEvent 4 "t" "/s/" true]).out =
    [.ont .ok ["t"] ["/s/"], .event 1 "t" "/s/" true, .event 4 "t" "/s/" true] := by decide +kernel

/-! ### the pass-through filter -/

/-- what the filter output looks like: every ontology element holds everything defined so far, every
event is of a defined type and source (and valid, when validating), nothing else -/
def SelfAcc (v : Bool) : List String × List String → List Item → Prop
  | _, [] => True
  | cur, .ont o ts ss :: r => o = .ok ∧ canonS (cur.1 ++ ts) = ts ∧ canonS (cur.2 ++ ss) = ss ∧ SelfAcc v (ts, ss) r
  | cur, .event _ t s g :: r => cur.2.contains s = true ∧ cur.1.contains t = true ∧ (v && !g) = false ∧ SelfAcc v cur r
  | _, .foreign _ :: _ => False

/-- parser and writer of a filter hold the same definitions -/
structure Sync (s : FState) (cur : List String × List String) : Prop where
  pont : s.p.ont.getD ([], []) = cur
  pnone : s.p.ont = none → cur = ([], [])
  wt : s.w.types = cur.1
  ws : s.w.sources = cur.2

theorem canonS_absorb (a b : List String) : canonS (a ++ canonS (a ++ b)) = canonS (a ++ b) := by
  rw [canonS_eq_iff]
  intro x
  simp only [List.mem_append, mem_canonS]
  constructor
  · rintro (h | h | h)
    · exact Or.inl h
    · exact Or.inl h
    · exact Or.inr h
  · intro h; exact Or.inr h

theorem selfAcc_append (v : Bool) : ∀ (a b : List Item) (cur : List String × List String),
    SelfAcc v cur (a ++ b) ↔ SelfAcc v cur a ∧ SelfAcc v (a.foldl (fun c it => match it with | .ont _ ts ss => (ts, ss) | _ => c) cur) b
  | [], b, cur => by simp [SelfAcc]
  | .ont o ts ss :: r, b, cur => by
    simp only [List.cons_append, SelfAcc, List.foldl_cons, selfAcc_append v r b (ts, ss)]
    constructor
    · rintro ⟨h1, h2, h3, h4, h5⟩; exact ⟨⟨h1, h2, h3, h4⟩, h5⟩
    · rintro ⟨⟨h1, h2, h3, h4⟩, h5⟩; exact ⟨h1, h2, h3, h4, h5⟩
  | .event i t s g :: r, b, cur => by
    simp only [List.cons_append, SelfAcc, List.foldl_cons, selfAcc_append v r b cur]
    constructor
    · rintro ⟨h1, h2, h3, h4, h5⟩; exact ⟨⟨h1, h2, h3, h4⟩, h5⟩
    · rintro ⟨⟨h1, h2, h3, h4⟩, h5⟩; exact ⟨h1, h2, h3, h4, h5⟩
  | .foreign i :: r, b, cur => by simp [SelfAcc]


theorem sync_some {s : FState} {cur : List String × List String} (h : Sync s cur) (hne : cur.2 ≠ []) : s.p.ont = some cur := by
  cases ho : s.p.ont with
  | none => have := h.pnone ho; rw [this] at hne; exact absurd rfl hne
  | some c => have := h.pont; rw [ho] at this; simpa using this

theorem contains_ne_nil {l : List String} {x : String} (h : l.contains x = true) : l ≠ [] := by
  intro e; subst e; simp at h

/-- an ontology element: the writer is given the accumulated ontology and writes it -/
theorem fstep_ont (v : Bool) (s : FState) (cur : List String × List String) (ts ss : List String) (h : Sync s cur) :
    ∃ s', fstep v s (.ont .ok ts ss) = (s', none) ∧
      s'.w.out = s.w.out ++ [.ont .ok (canonS (cur.1 ++ ts)) (canonS (cur.2 ++ ss))] ∧
      Sync s' (canonS (cur.1 ++ ts), canonS (cur.2 ++ ss)) ∧
      s'.p = (pstep (filterReg v) s.p (.ont .ok ts ss)).1 ∧
      wstep v s.w (.addOntology (canonS (cur.1 ++ ts)) (canonS (cur.2 ++ ss)) true) = (s'.w, none) := by
  obtain ⟨e1, e2, _⟩ := pstep_ont_ok (filterReg v) s.p ts ss
  rw [h.pont] at e2
  refine ⟨{ p := (pstep (filterReg v) s.p (.ont .ok ts ss)).1,
            w := (wstep v s.w (.addOntology (canonS (cur.1 ++ ts)) (canonS (cur.2 ++ ss)) true)).1 }, ?_, ?_, ?_, rfl, ?_⟩
  · simp only [fstep, e1, e2, Option.getD_some, wstep, if_true]
  · simp only [wstep, if_true]
  rotate_left
  · simp only [wstep, if_true]
  · constructor
    · simp only [e2, Option.getD_some]
    · intro hn; simp only [e2] at hn; cases hn
    · simp only [wstep, if_true, h.wt]; exact canonS_absorb _ _
    · simp only [wstep, if_true, h.ws]; exact canonS_absorb _ _

theorem fstep_event (v : Bool) (s : FState) (cur : List String × List String) (i : Nat) (t src : String) (g : Bool)
    (h : Sync s cur) (h1 : cur.2.contains src = true) (h2 : cur.1.contains t = true) (h3 : (v && !g) = false) :
    ∃ s', fstep v s (.event i t src g) = (s', none) ∧ s'.w.out = s.w.out ++ [.event i t src g] ∧ Sync s' cur ∧
      s'.p = (pstep (filterReg v) s.p (.event i t src g)).1 ∧ wstep v s.w (.addEvent i t src g) = (s'.w, none) := by
  have ho := sync_some h (contains_ne_nil h1)
  obtain ⟨e1, e2, _⟩ := pstep_event_ok (filterReg v) s.p i t src g cur.1 cur.2 ho h1 h2 h3
  have hw : wstep v s.w (.addEvent i t src g) = ({ s.w with out := s.w.out ++ [Item.event i t src g] }, none) := by
    simp only [wstep, h.wt, h.ws, h1, h2, h3, Bool.not_true, Bool.false_eq_true, if_false]
  refine ⟨{ p := (pstep (filterReg v) s.p (.event i t src g)).1, w := { s.w with out := s.w.out ++ [Item.event i t src g] } }, ?_, ?_, ?_, rfl, hw⟩
  · simp only [fstep, e1, hw]
  · simp only
  · exact ⟨by simp only [e2]; exact h.pont, by intro hn; simp only [e2] at hn; exact h.pnone hn, h.wt, h.ws⟩

/-- C02: what a filter has written can be filtered again, and comes out as it is -/
theorem filter_replays (v : Bool) : ∀ (items : List Item) (s : FState) (cur : List String × List String),
    Sync s cur → SelfAcc v cur items → ∃ s', frun v s items = (s', none) ∧ s'.w.out = s.w.out ++ items
  | [], s, _, _, _ => ⟨s, rfl, by simp⟩
  | .ont o ts ss :: r, s, cur, hs, ha => by
    obtain ⟨rfl, h1, h2, h3⟩ := ha
    obtain ⟨s1, e1, e2, e3, _, _⟩ := fstep_ont v s cur ts ss hs
    rw [h1, h2] at e2 e3
    obtain ⟨s2, f1, f2⟩ := filter_replays v r s1 (ts, ss) e3 h3
    exact ⟨s2, by simp only [frun, e1, f1], by rw [f2, e2]; simp⟩
  | .event i t src g :: r, s, cur, hs, ha => by
    obtain ⟨h1, h2, h3, h4⟩ := ha
    obtain ⟨s1, e1, e2, e3, _, _⟩ := fstep_event v s cur i t src g hs h1 h2 h3
    obtain ⟨s2, f1, f2⟩ := filter_replays v r s1 cur e3 h4
    exact ⟨s2, by simp only [frun, e1, f1], by rw [f2, e2]; simp⟩
  | .foreign i :: r, _, _, _, ha => by cases ha

theorem pstep_ont_bad (reg : Registry) (p : PState) (o : OntV) (ts ss : List String) (h : o ≠ .ok) :
    ∃ e, (pstep reg p (.ont o ts ss)).2 = some e := by
  cases o with
  | ok => exact absurd rfl h
  | semFail => exact ⟨_, rfl⟩
  | schemaSemFail => exact ⟨_, rfl⟩
  | schemaSemOk => exact ⟨_, rfl⟩

theorem wstep_event_none (v : Bool) (w w' : WState) (i : Nat) (t src : String) (g : Bool)
    (h : wstep v w (.addEvent i t src g) = (w', none)) :
    w.sources.contains src = true ∧ w.types.contains t = true ∧ (v && !g) = false := by
  simp only [wstep] at h
  cases c1 : w.sources.contains src with
  | false => rw [c1] at h; simp at h
  | true =>
    cases c2 : w.types.contains t with
    | false => rw [c1, c2] at h; simp at h
    | true =>
      cases c3 : (v && !g) with
      | true => rw [c1, c2, c3] at h; simp at h
      | false => exact ⟨rfl, rfl, rfl⟩

/-- C02: the shape of what a filter writes -/
theorem filter_output_shape (v : Bool) : ∀ (items : List Item) (s s' : FState) (cur : List String × List String),
    Sync s cur → frun v s items = (s', none) → ∃ d, s'.w.out = s.w.out ++ d ∧ SelfAcc v cur d
  | [], s, s', cur, _, h => by
    simp only [frun, Prod.mk.injEq, and_true] at h
    subst h
    exact ⟨[], by simp, trivial⟩
  | .ont o ts ss :: r, s, s', cur, hs, h => by
    by_cases ho : o = .ok
    · subst ho
      obtain ⟨s1, e1, e2, e3, _, _⟩ := fstep_ont v s cur ts ss hs
      simp only [frun, e1] at h
      obtain ⟨d, f1, f2⟩ := filter_output_shape v r s1 s' _ e3 h
      refine ⟨Item.ont .ok (canonS (cur.1 ++ ts)) (canonS (cur.2 ++ ss)) :: d, by rw [f1, e2]; simp, ?_⟩
      exact ⟨rfl, canonS_absorb _ _, canonS_absorb _ _, f2⟩
    · obtain ⟨e, he⟩ := pstep_ont_bad (filterReg v) s.p o ts ss ho
      simp only [frun, fstep, he] at h
      cases h
  | .event i t src g :: r, s, s', cur, hs, h => by
    cases hp : (pstep (filterReg v) s.p (.event i t src g)).2 with
    | some e => simp only [frun, fstep, hp] at h; cases h
    | none =>
      cases hw : wstep v s.w (.addEvent i t src g) with
      | mk w1 e =>
        cases e with
        | some err => simp only [frun, fstep, hp, hw] at h; cases h
        | none =>
          obtain ⟨c1, c2, c3⟩ := wstep_event_none v s.w w1 i t src g hw
          rw [hs.ws] at c1
          rw [hs.wt] at c2
          obtain ⟨s1, e1, e2, e3, _, _⟩ := fstep_event v s cur i t src g hs c1 c2 c3
          simp only [frun, e1] at h
          obtain ⟨d, f1, f2⟩ := filter_output_shape v r s1 s' cur e3 h
          exact ⟨Item.event i t src g :: d, by rw [f1, e2]; simp, ⟨c1, c2, c3, f2⟩⟩
  | .foreign i :: r, s, s', cur, hs, h => by
    obtain ⟨e1, e2, _⟩ := pstep_foreign_ok (filterReg v) s.p i
    simp only [frun, fstep, e1] at h
    have hs1 : Sync { s with p := (pstep (filterReg v) s.p (.foreign i)).1 } cur :=
      ⟨by simp only [e2]; exact hs.pont, by intro hn; simp only [e2] at hn; exact hs.pnone hn, hs.wt, hs.ws⟩
    exact filter_output_shape v r { s with p := (pstep (filterReg v) s.p (.foreign i)).1 } s' cur hs1 h

theorem sync_init : Sync {} ([], []) := ⟨rfl, fun _ => rfl, rfl, rfl⟩

/-- C02: filtering the output of the pass-through filter reproduces it -/
theorem filter_idempotent (v : Bool) (items out : List Item) (h : filterOut v items = some out) :
    filterOut v out = some out := by
  unfold filterOut at h
  cases hr : frun v {} items with
  | mk s e =>
    rw [hr] at h
    cases e with
    | some _ => cases h
    | none =>
      simp only [Option.some.injEq] at h
      obtain ⟨d, f1, f2⟩ := filter_output_shape v items {} s _ sync_init hr
      have hd : d = out := by
        rw [← h, f1]; rfl
      subst hd
      obtain ⟨s2, g1, g2⟩ := filter_replays v d {} _ sync_init f2
      unfold filterOut
      rw [g1]
      simp only [g2]
      rfl


theorem prun_cons_ok (reg : Registry) (s : PState) (it : Item) (r : List Item) (h : (pstep reg s it).2 = none) :
    prun reg s (it :: r) = prun reg (pstep reg s it).1 r := by
  cases hx : pstep reg s it with
  | mk a b =>
    rw [hx] at h
    simp only at h
    subst h
    simp [prun, hx]

/-- what holds between the filter's parser (which reads the input), its writer, and a parser that
reads what the writer wrote -/
structure FInv (v : Bool) (s : FState) (pout : PState) : Prop where
  parsed : prun (filterReg v) {} s.w.out = (pout, none)
  agree : Agree (filterReg v) s.w pout
  delivered : s.p.log.filterMap EdxmlProps.C15.deliveredEvent = eventIdxs s.w.out
  hasOnt : hasOnt s.w.out = s.p.ont.isSome

theorem finv_write (v : Bool) (s s1 : FState) (pout : PState) (op : WOp) (hi : FInv v s pout)
    (hw : wstep v s.w op = (s1.w, none)) :
    ∃ it pout', s1.w.out = s.w.out ++ [it] ∧ prun (filterReg v) {} s1.w.out = (pout', none) ∧ Agree (filterReg v) s1.w pout' := by
  obtain ⟨it, hout, hstep, ha'⟩ := step_agree (filterReg v) v (fun _ => by simp [filterReg] at *; assumption) s.w s1.w pout op hw hi.agree
  refine ⟨it, _, hout, ?_, ha'⟩
  rw [hout, prun_append, hi.parsed]
  simp only
  rw [prun_cons_ok _ _ _ _ hstep]
  rfl

theorem frun_inv (v : Bool) : ∀ (items : List Item) (s s' : FState) (cur : List String × List String) (pout : PState),
    Sync s cur → FInv v s pout → frun v s items = (s', none) →
      ∃ pout' cur', FInv v s' pout' ∧ prun (filterReg v) s.p items = (s'.p, none) ∧ Sync s' cur'
  | [], s, s', cur, pout, hs, hi, h => by
    simp only [frun, Prod.mk.injEq, and_true] at h
    subst h
    exact ⟨pout, cur, hi, rfl, hs⟩
  | .ont o ts ss :: r, s, s', cur, pout, hs, hi, h => by
    by_cases ho : o = .ok
    · subst ho
      obtain ⟨s1, e1, e2, e3, e4, e5⟩ := fstep_ont v s cur ts ss hs
      simp only [frun, e1] at h
      obtain ⟨it, pout1, g1, g2, g3⟩ := finv_write v s s1 pout _ hi e5
      obtain ⟨p1, p2, p3⟩ := pstep_ont_ok (filterReg v) s.p ts ss
      have hi1 : FInv v s1 pout1 := by
        refine ⟨g2, g3, ?_, ?_⟩
        · rw [e4, p3, List.filterMap_append, hi.delivered, e2, eventIdxs_append]
          simp [eventIdxs, EdxmlProps.C15.deliveredEvent]
        · rw [e2, e4, p2, hasOnt_append]; simp [hasOnt]
      obtain ⟨pout', cur', k1, k2, k3⟩ := frun_inv v r s1 s' _ pout1 e3 hi1 h
      refine ⟨pout', cur', k1, ?_, k3⟩
      rw [prun_cons_ok _ _ _ _ p1, ← e4]; exact k2
    · obtain ⟨e, he⟩ := pstep_ont_bad (filterReg v) s.p o ts ss ho
      simp only [frun, fstep, he] at h
      cases h
  | .event i t src g :: r, s, s', cur, pout, hs, hi, h => by
    cases hp : (pstep (filterReg v) s.p (.event i t src g)).2 with
    | some e => simp only [frun, fstep, hp] at h; cases h
    | none =>
      cases hw : wstep v s.w (.addEvent i t src g) with
      | mk w1 e =>
        cases e with
        | some err => simp only [frun, fstep, hp, hw] at h; cases h
        | none =>
          obtain ⟨c1, c2, c3⟩ := wstep_event_none v s.w w1 i t src g hw
          rw [hs.ws] at c1
          rw [hs.wt] at c2
          obtain ⟨s1, e1, e2, e3, e4, e5⟩ := fstep_event v s cur i t src g hs c1 c2 c3
          simp only [frun, e1] at h
          obtain ⟨it, pout1, g1, g2, g3⟩ := finv_write v s s1 pout _ hi e5
          have ho := sync_some hs (contains_ne_nil c1)
          obtain ⟨p1, p2, p3⟩ := pstep_event_ok (filterReg v) s.p i t src g cur.1 cur.2 ho c1 c2 c3
          have hi1 : FInv v s1 pout1 := by
            refine ⟨g2, g3, ?_, ?_⟩
            · rw [e4, p3, List.filterMap_append, hi.delivered, e2, eventIdxs_append,
                dispatch_overridden (filterReg v) _ i t src rfl rfl rfl]
              simp [eventIdxs, EdxmlProps.C15.deliveredEvent]
            · rw [e2, e4, p2, hasOnt_append, hi.hasOnt]; simp [hasOnt]
          obtain ⟨pout', cur', k1, k2, k3⟩ := frun_inv v r s1 s' cur pout1 e3 hi1 h
          refine ⟨pout', cur', k1, ?_, k3⟩
          rw [prun_cons_ok _ _ _ _ p1, ← e4]; exact k2
  | .foreign i :: r, s, s', cur, pout, hs, hi, h => by
    obtain ⟨e1, e2, e3⟩ := pstep_foreign_ok (filterReg v) s.p i
    simp only [frun, fstep, e1] at h
    have hs1 : Sync { s with p := (pstep (filterReg v) s.p (.foreign i)).1 } cur :=
      ⟨by simp only [e2]; exact hs.pont, by intro hn; simp only [e2] at hn; exact hs.pnone hn, hs.wt, hs.ws⟩
    have hi1 : FInv v { s with p := (pstep (filterReg v) s.p (.foreign i)).1 } pout := by
      refine ⟨hi.parsed, hi.agree, ?_, ?_⟩
      · simp only [e3, List.filterMap_append, hi.delivered]
        simp [EdxmlProps.C15.deliveredEvent]
      · simp only [e2]; exact hi.hasOnt
    obtain ⟨pout', cur', k1, k2, k3⟩ := frun_inv v r { s with p := (pstep (filterReg v) s.p (.foreign i)).1 } s' cur pout hs1 hi1 h
    refine ⟨pout', cur', k1, ?_, k3⟩
    rw [prun_cons_ok _ _ _ _ e1]; exact k2

/-- C02: what the pass-through filter writes for a document it accepts is accepted by a parser, which
ends up with the same ontology and delivers the same events in the same order as a parser of the
input -/
theorem filter_lossless (v : Bool) (items out : List Item) (h : filterOut v items = some out) :
    ∃ pin pout, prun (filterReg v) {} items = (pin, none) ∧ prun (filterReg v) {} out = (pout, none) ∧
      pout.ont = pin.ont ∧
      pout.log.filterMap EdxmlProps.C15.deliveredEvent = pin.log.filterMap EdxmlProps.C15.deliveredEvent := by
  unfold filterOut at h
  cases hr : frun v {} items with
  | mk s e =>
    rw [hr] at h
    cases e with
    | some _ => cases h
    | none =>
      simp only [Option.some.injEq] at h
      subst h
      have hi0 : FInv v {} {} := ⟨rfl, ⟨rfl, fun _ => ⟨rfl, rfl⟩, fun _ _ _ => rfl⟩, rfl, rfl⟩
      obtain ⟨pout, cur', k1, k2, k3⟩ := frun_inv v items {} s _ {} sync_init hi0 hr
      refine ⟨s.p, pout, k2, k1.parsed, ?_, ?_⟩
      · rw [k1.agree.ont, k1.hasOnt]
        cases ho : s.p.ont with
        | none => rfl
        | some c =>
          have := k3.pont
          rw [ho] at this
          simp only [Option.getD_some] at this
          simp only [Option.isSome_some, if_true, k3.wt, k3.ws, ← this]
      · rw [k1.agree.delivered rfl rfl rfl, k1.delivered]


end EdxmlProps.C02
