/-
C11 — Ontology update yields the element-wise newest definitions and nothing else.

The theorems are about `updList` (one kind of element, keyed by name) for an arbitrary comparison
`cmp`; `C09` supplies the laws of the concrete comparisons. `updateOntology` is four such lists.
-/
import EdxmlModel
import EdxmlProps.Lemmas.Ont
import EdxmlProps.C09
namespace EdxmlProps.C11
open Edxml.Ont

variable {α : Type} (key : α → String) (cmp : α → α → Cmp)

/-- The newer of two optional definitions. -/
def newest : Option α → Option α → Option α
  | none, b => b
  | a, none => a
  | some a, some b => if cmp a b = .lt then some b else some a

theorem findBy_append_single (A : List α) (b : α) (k : String) (hb : findBy key (key b) A = none) :
    findBy key k (A ++ [b]) = if k = key b then some b else findBy key k A := by
  induction A with
  | nil =>
    simp only [List.nil_append, findBy]
    by_cases h : k = key b
    · simp [h]
    · have : (key b == k) = false := beq_eq_false_iff_ne.mpr (fun e => h e.symm)
      simp [h, this]
  | cons a r ih =>
    simp only [findBy] at hb
    by_cases hab : (key a == key b) = true
    · rw [if_pos hab] at hb; cases hb
    · rw [if_neg hab] at hb
      simp only [List.cons_append, findBy]
      by_cases hak : (key a == k) = true
      · have : k ≠ key b := by
          intro e; subst e; exact hab hak
        simp [hak, this]
      · simp only [hak, Bool.false_eq_true, if_false]
        exact ih hb

theorem findBy_replaceBy (A : List α) (n : String) (r : α) (hr : key r = n) (k : String)
    (hin : (findBy key n A).isSome = true) :
    findBy key k (replaceBy key n r A) = if k = n then some r else findBy key k A := by
  induction A with
  | nil => simp [findBy] at hin
  | cons a rest ih =>
    simp only [replaceBy]
    by_cases han : (key a == n) = true
    · have han' : key a = n := by simpa using han
      simp only [han, if_true, findBy]
      by_cases hk : k = n
      · subst hk; simp [hr]
      · have h1 : (key r == k) = false := beq_eq_false_iff_ne.mpr (fun e => hk (by rw [← e, hr]))
        have h2 : (key a == k) = false := beq_eq_false_iff_ne.mpr (fun e => hk (by rw [← e, han']))
        simp [hk, h1, h2]
    · simp only [han, Bool.false_eq_true, if_false, findBy]
      have hin' : (findBy key n rest).isSome = true := by
        simp only [findBy, han, Bool.false_eq_true, if_false] at hin; exact hin
      by_cases hak : (key a == k) = true
      · have : k ≠ n := by
          intro e; subst e; exact han hak
        simp [hak, this]
      · simp only [hak, Bool.false_eq_true, if_false]
        exact ih hin'

/-- A successful `updList` is characterised key by key: the result holds the newer definition. -/
theorem updList_find (hkey : ∀ a b, key a = key b → ∀ r, updElem cmp a b = .ok r → key r = key a) :
    ∀ (B A R : List α), (B.map key).Nodup → updList key cmp A B = .ok R →
      ∀ k, findBy key k R = newest cmp (findBy key k A) (findBy key k B)
  | [], A, R, _, h, k => by
    simp only [updList, Except.ok.injEq] at h
    subst h
    cases findBy key k A <;> rfl
  | b :: bs, A, R, hn, h, k => by
    simp only [List.map_cons, List.nodup_cons] at hn
    have hnb : ∀ k', k' = key b → findBy key k' bs = none := by
      intro k' hk'
      cases hf : findBy key k' bs with
      | none => rfl
      | some x =>
        have := findBy_some hf
        exact absurd (List.mem_map.mpr ⟨x, this.1, by rw [this.2, hk']⟩) hn.1
    simp only [updList] at h
    cases hfa : findBy key (key b) A with
    | none =>
      rw [hfa] at h
      have ih := updList_find hkey bs (A ++ [b]) R hn.2 h k
      rw [ih, findBy_append_single key A b k hfa]
      simp only [findBy]
      by_cases hk : k = key b
      · subst hk
        simp [hfa, hnb _ rfl, newest]
      · have : (key b == k) = false := beq_eq_false_iff_ne.mpr (fun e => hk e.symm)
        simp [hk, this]
    | some a =>
      rw [hfa] at h
      simp only at h
      cases hu : updElem cmp a b with
      | error e => rw [hu] at h; cases h
      | ok r =>
        rw [hu] at h
        simp only at h
        have hka : key a = key b := (findBy_some hfa).2
        have hkr : key r = key b := by rw [hkey a b hka r hu, hka]
        have ih := updList_find hkey bs (replaceBy key (key b) r A) R hn.2 h k
        rw [ih, findBy_replaceBy key A (key b) r hkr k (by rw [hfa]; rfl)]
        simp only [findBy]
        by_cases hk : k = key b
        · subst hk
          simp only [if_true, beq_self_eq_true, hnb _ rfl, hfa]
          -- newest (some r) none = some r, and r is the newer of a and b
          unfold updElem at hu
          simp only [newest]
          cases hc : cmp a b <;> rw [hc] at hu <;> simp_all
        · have : (key b == k) = false := beq_eq_false_iff_ne.mpr (fun e => hk e.symm)
          simp [hk, this]

/-- `updList` fails exactly when some definition of `B` is incompatible with the definition of the
same element in `A`. -/
theorem updList_fails_iff (hkey : ∀ a b, key a = key b → ∀ r, updElem cmp a b = .ok r → key r = key a) :
    ∀ (B A : List α), (B.map key).Nodup →
      ((∃ e, updList key cmp A B = .error e) ↔
        ∃ b ∈ B, ∃ a, findBy key (key b) A = some a ∧ cmp a b = .incompat)
  | [], A, _ => by simp [updList]
  | b :: bs, A, hn => by
    simp only [List.map_cons, List.nodup_cons] at hn
    simp only [updList]
    have other : ∀ (A' : List α), (∀ k, k ≠ key b → findBy key k A' = findBy key k A) →
        ((∃ b' ∈ bs, ∃ a, findBy key (key b') A' = some a ∧ cmp a b' = .incompat) ↔
         (∃ b' ∈ bs, ∃ a, findBy key (key b') A = some a ∧ cmp a b' = .incompat)) := by
      intro A' hA'
      have hne : ∀ b' ∈ bs, key b' ≠ key b := fun b' hb' e => hn.1 (List.mem_map.mpr ⟨b', hb', e⟩)
      constructor
      · rintro ⟨b', hb', a, hf, hc⟩; exact ⟨b', hb', a, by rw [← hA' _ (hne b' hb')]; exact hf, hc⟩
      · rintro ⟨b', hb', a, hf, hc⟩; exact ⟨b', hb', a, by rw [hA' _ (hne b' hb')]; exact hf, hc⟩
    cases hfa : findBy key (key b) A with
    | none =>
      simp only
      rw [updList_fails_iff hkey bs (A ++ [b]) hn.2,
        other (A ++ [b]) (fun k hk => by rw [findBy_append_single key A b k hfa]; simp [hk])]
      constructor
      · rintro ⟨b', hb', h⟩; exact ⟨b', List.mem_cons_of_mem _ hb', h⟩
      · rintro ⟨b', hb', a, hf, hc⟩
        rcases List.mem_cons.mp hb' with rfl | hb''
        · rw [hfa] at hf; cases hf
        · exact ⟨b', hb'', a, hf, hc⟩
    | some a =>
      simp only
      cases hu : updElem cmp a b with
      | error e =>
        simp only
        constructor
        · intro _
          refine ⟨b, by simp, a, hfa, ?_⟩
          unfold updElem at hu
          cases hc : cmp a b <;> rw [hc] at hu <;> simp_all
        · intro _; exact ⟨e, trivial⟩
      | ok r =>
        simp only
        have hka : key a = key b := (findBy_some hfa).2
        have hkr : key r = key b := by rw [hkey a b hka r hu, hka]
        rw [updList_fails_iff hkey bs _ hn.2,
          other (replaceBy key (key b) r A) (fun k hk => by
            rw [findBy_replaceBy key A (key b) r hkr k (by rw [hfa]; rfl)]; simp [hk])]
        constructor
        · rintro ⟨b', hb', h⟩; exact ⟨b', List.mem_cons_of_mem _ hb', h⟩
        · rintro ⟨b', hb', a', hf, hc⟩
          rcases List.mem_cons.mp hb' with rfl | hb''
          · rw [hfa] at hf; cases hf
            unfold updElem at hu; rw [hc] at hu; cases hu
          · exact ⟨b', hb'', a', hf, hc⟩

/-! ### the property, for one kind of element -/

variable (hkey : ∀ a b, key a = key b → ∀ r, updElem cmp a b = .ok r → key r = key a)

include hkey in
/-- **Contains every element of either ontology.** -/
theorem update_contains_all (A B R : List α) (hn : (B.map key).Nodup) (h : updList key cmp A B = .ok R) (k : String) :
    (findBy key k R).isSome = ((findBy key k A).isSome || (findBy key k B).isSome) := by
  rw [updList_find key cmp hkey B A R hn h k]
  cases findBy key k A <;> cases findBy key k B <;> simp [newest]
  split <;> rfl

include hkey in
/-- **Element-wise newest**: for an element defined on both sides the result is the definition of
`B` when that is an accepted upgrade of `A`'s, and `A`'s own definition otherwise; an element
defined on one side only is taken over unchanged. -/
theorem update_elementwise_newest (A B R : List α) (hn : (B.map key).Nodup) (h : updList key cmp A B = .ok R)
    (k : String) : findBy key k R = newest cmp (findBy key k A) (findBy key k B) :=
  updList_find key cmp hkey B A R hn h k

include hkey in
/-- **Fails iff incompatible.** -/
theorem update_fails_iff_incompatible (A B : List α) (hn : (B.map key).Nodup) :
    (∃ e, updList key cmp A B = .error e) ↔
      ∃ b ∈ B, ∃ a, findBy key (key b) A = some a ∧ cmp a b = .incompat :=
  updList_fails_iff key cmp hkey B A hn

theorem newest_idem (hrefl : ∀ a, cmp a a = .eq) (x y : Option α) :
    newest cmp (newest cmp x y) y = newest cmp x y := by
  cases x with
  | none => cases y <;> simp [newest, hrefl]
  | some a =>
    cases y with
    | none => rfl
    | some b =>
      simp only [newest]
      by_cases h : cmp a b = .lt
      · simp [h, newest, hrefl]
      · simp [h, newest]

include hkey in
/-- **Idempotent**: after `A.update(B)`, updating with `B` again changes no definition. -/
theorem update_idempotent (hrefl : ∀ a, cmp a a = .eq) (A B R R' : List α) (hn : (B.map key).Nodup)
    (h : updList key cmp A B = .ok R) (h' : updList key cmp R B = .ok R') (k : String) :
    findBy key k R' = findBy key k R := by
  rw [updList_find key cmp hkey B R R' hn h' k, updList_find key cmp hkey B A R hn h k]
  exact newest_idem cmp hrefl _ _

include hkey in
/-- **Order of updating does not matter**: `A.update(B)` and `B.update(A)` hold the same definition
of every element (for a comparison that is antisymmetric and for which equal means identical). -/
theorem update_commutes (hanti : ∀ a b, cmp b a = (cmp a b).flip)
    (heq : ∀ a b, key a = key b → cmp a b = .eq → a = b)
    (A B R₁ R₂ : List α) (hA : (A.map key).Nodup) (hB : (B.map key).Nodup)
    (h₁ : updList key cmp A B = .ok R₁) (h₂ : updList key cmp B A = .ok R₂) (k : String) :
    findBy key k R₁ = findBy key k R₂ := by
  rw [updList_find key cmp hkey B A R₁ hB h₁ k, updList_find key cmp hkey A B R₂ hA h₂ k]
  cases ha : findBy key k A with
  | none => cases findBy key k B <;> rfl
  | some a =>
    cases hb : findBy key k B with
    | none => rfl
    | some b =>
      have hk : key a = key b := by rw [(findBy_some ha).2, (findBy_some hb).2]
      simp only [newest]
      have := hanti a b
      have hnot : cmp a b ≠ .incompat := by
        intro hc
        have hbm := findBy_some hb
        have : ∃ e, updList key cmp A B = .error e :=
          (updList_fails_iff key cmp hkey B A hB).mpr ⟨b, hbm.1, a, by rw [hbm.2]; exact ha, hc⟩
        obtain ⟨e, he⟩ := this
        rw [h₁] at he; cases he
      cases hc : cmp a b <;> rw [hc] at this <;> simp [Cmp.flip] at this <;> simp [this]
      · exact heq a b hk hc
      · exact absurd hc hnot

include hkey in
/-- **Versions never decrease** (for a comparison whose `lt` implies a higher version). -/
theorem update_versions_monotone (ver : α → Nat) (hlt : ∀ a b, cmp a b = .lt → ver a < ver b)
    (A B R : List α) (hn : (B.map key).Nodup) (h : updList key cmp A B = .ok R) (k : String) (a : α)
    (ha : findBy key k A = some a) : ∃ r, findBy key k R = some r ∧ ver a ≤ ver r := by
  rw [updList_find key cmp hkey B A R hn h k, ha]
  cases findBy key k B with
  | none => exact ⟨a, rfl, Nat.le_refl _⟩
  | some b =>
    simp only [newest]
    by_cases hc : cmp a b = .lt
    · exact ⟨b, by simp [hc], Nat.le_of_lt (hlt a b hc)⟩
    · exact ⟨a, by simp [hc], Nat.le_refl _⟩

/-! ### instances: the premises hold for the concrete comparisons -/

theorem updElem_key_objectType (a b : ObjectTypeDef) (h : a.name = b.name) (r : ObjectTypeDef)
    (hu : updElem cmpObjectType a b = .ok r) : r.name = a.name := by
  unfold updElem at hu
  cases hc : cmpObjectType a b <;> rw [hc] at hu <;> simp at hu <;> subst hu <;> simp [h]

theorem objectType_lt_version (a b : ObjectTypeDef) (h : cmpObjectType a b = .lt) : a.version < b.version :=
  ((cmpGen_lt_iff _ a b _ _).mp h).1

/-- The premises of the theorems above hold for object types (C09), so e.g. updating in either
order gives the same object type definitions. -/
example (A B R₁ R₂ : List ObjectTypeDef) (hA : (A.map (·.name)).Nodup) (hB : (B.map (·.name)).Nodup)
    (h₁ : updList (·.name) cmpObjectType A B = .ok R₁) (h₂ : updList (·.name) cmpObjectType B A = .ok R₂) (k : String) :
    findBy (·.name) k R₁ = findBy (·.name) k R₂ :=
  update_commutes (·.name) cmpObjectType updElem_key_objectType C09.cmpObjectType_antisymm
    (fun a b hk he => C09.objectType_eq_same a b hk he) A B R₁ R₂ hA hB h₁ h₂ k

example : (match updList (·.name) cmpObjectType [C09.exA] [C09.exB] with | .ok r => decide (r = [C09.exB]) | _ => false) = true := by
  decide +kernel

end EdxmlProps.C11
