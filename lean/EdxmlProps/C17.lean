/-
C17. Transcoder mediators always emit one valid, complete EDXML stream.

The mediator machine (model: `Stream/Mediator.lean`) only talks to the writer machine; its output
is therefore the output of a writer session, to which the theorems of C02 apply: the validating
parser reads it without error and delivers exactly the written events, in order. In addition:
every written event is preceded by an ontology element that defines its type and its source; only
gate-accepted events are written; an invalid event is skipped or makes the call raise, and is never
written.
-/
import EdxmlModel.Stream.Mediator
import EdxmlProps.C02
import EdxmlProps.Lemmas.Merge
namespace EdxmlProps.C17
open Edxml EdxmlProps.C02

/-- the writer of the mediator is in the state that the calls issued so far lead to -/
def Coherent (s : MState) : Prop := s.w = wrun true {} s.issued

theorem wrun_snoc (v : Bool) (w : WState) (ops : List WOp) (op : WOp) :
    wrun v w (ops ++ [op]) = (wstep v (wrun v w ops) op).1 := by
  simp [wrun, List.foldl_append]

theorem call_coherent (s : MState) (op : WOp) (h : Coherent s) : Coherent (s.call op).1 := by
  unfold Coherent MState.call at *
  simp only
  rw [wrun_snoc, ← h]

theorem writeEvent_coherent (ig : Bool) (s : MState) (e : GenEvent) (h : Coherent s) :
    Coherent (writeEvent ig s e).1 := by
  unfold writeEvent
  simp only
  have h1 : Coherent (if s.upToDate then s else
      { (s.call (.addOntology s.types s.sources true)).1 with upToDate := true }) := by
    split
    · exact h
    · exact call_coherent s _ h
  have h2 := call_coherent _ (.addEvent e.idx e.type
    (if s.upToDate then s else { (s.call (.addOntology s.types s.sources true)).1 with upToDate := true }).curSource
    e.gateOk) h1
  split
  · exact h2
  · split <;> exact h2

theorem writeEvents_coherent (ig : Bool) : ∀ (es : List GenEvent) (s : MState), Coherent s →
    Coherent (writeEvents ig s es).1
  | [], s, h => h
  | e :: es, s, h => by
    unfold writeEvents
    have h1 := writeEvent_coherent ig s e h
    cases hw : writeEvent ig s e with
    | mk s' r =>
      rw [hw] at h1
      cases r with
      | none => exact writeEvents_coherent ig es s' h1
      | some err => exact h1

theorem mstep_coherent (ig : Bool) (s : MState) (op : MOp) (h : Coherent s) : Coherent (mstep ig s op).1 := by
  cases op with
  | addSource u => exact h
  | setSource u => exact h
  | record evs => exact writeEvents_coherent ig evs s h

theorem mrun_coherent (ig : Bool) : ∀ (ops : List MOp) (s : MState), Coherent s → Coherent (mrun ig s ops)
  | [], s, h => h
  | op :: ops, s, h => by
    simp only [mrun, List.foldl_cons]
    exact mrun_coherent ig ops _ (mstep_coherent ig s op h)

theorem mclose_coherent (s : MState) (h : Coherent s) : Coherent (mclose s) := by
  unfold mclose
  split
  · exact h
  · exact call_coherent s _ h

/-- C17: whatever records are processed and whatever sources are registered in between, with any
configuration, the children a mediator emits — up to any point, and after `close()` — are read by
the validating parser without error, which delivers exactly the written events, in order. -/
theorem mediator_stream_parses (reg : Registry) (ig : Bool) (types sources : List String) (cur : String)
    (ops : List MOp) :
    let s := mclose (mrun ig { types := types, sources := sources, curSource := cur } ops)
    ∃ p', prun reg {} s.w.out = (p', none) ∧ Agree reg s.w p' := by
  intro s
  have hc : Coherent s := mclose_coherent _ (mrun_coherent ig ops _ rfl)
  have := written_stream_parses_from_start reg true (fun _ => rfl) s.issued
  rw [← hc] at this
  exact this

/-- C17: only events that the gate accepted are ever written -/
theorem mediator_writes_only_accepted (ig : Bool) (types sources : List String) (cur : String) (ops : List MOp) :
    let s := mclose (mrun ig { types := types, sources := sources, curSource := cur } ops)
    ∀ it ∈ s.w.out, ∀ i t src g, it = Item.event i t src g → g = true := by
  intro s
  have hc : Coherent s := mclose_coherent _ (mrun_coherent ig ops _ rfl)
  rw [hc]
  exact only_valid_events_written true rfl s.issued {} (by intro it hit; cases hit)

/-! ### every event is preceded by the ontology it needs -/

def typesOf (items : List Item) : List String :=
  items.flatMap fun it => match it with | .ont _ ts _ => ts | _ => []
def sourcesOf (items : List Item) : List String :=
  items.flatMap fun it => match it with | .ont _ _ ss => ss | _ => []

/-- what the writer knows is what it has written -/
structure Knows (w : WState) : Prop where
  types : ∀ t, t ∈ w.types ↔ t ∈ typesOf w.out
  sources : ∀ s, s ∈ w.sources ↔ s ∈ sourcesOf w.out

/-- every event among the children comes after ontology elements defining its type and source -/
def Preceded (items : List Item) : Prop :=
  ∀ pre i t s g post, items = pre ++ Item.event i t s g :: post → t ∈ typesOf pre ∧ s ∈ sourcesOf pre

theorem typesOf_append (a b : List Item) : typesOf (a ++ b) = typesOf a ++ typesOf b := by
  simp [typesOf, List.flatMap_append]
theorem sourcesOf_append (a b : List Item) : sourcesOf (a ++ b) = sourcesOf a ++ sourcesOf b := by
  simp [sourcesOf, List.flatMap_append]

theorem preceded_snoc_other (items : List Item) (it : Item) (h : Preceded items)
    (hne : ∀ i t s g, it ≠ Item.event i t s g) : Preceded (items ++ [it]) := by
  intro pre i t s g post heq
  rcases List.append_eq_append_iff.mp heq with ⟨a', h1, h2⟩ | ⟨c', h1, h2⟩
  · -- pre = items ++ a'
    cases a' with
    | nil =>
      simp only [List.nil_append, List.cons.injEq] at h2
      exact absurd h2.1 (hne i t s g)
    | cons x xs =>
      simp only [List.cons_append, List.cons.injEq] at h2
      have : xs ++ Item.event i t s g :: post = [] := h2.2.symm
      simp at this
  · -- items = pre ++ c'
    cases c' with
    | nil =>
      simp only [List.nil_append] at h2
      simp only [List.cons.injEq] at h2
      exact absurd h2.1.symm (hne i t s g)
    | cons x xs =>
      simp only [List.cons_append, List.cons.injEq] at h2
      obtain ⟨rfl, hrest⟩ := h2
      exact h pre i t s g xs h1

theorem wstep_invariants (w : WState) (op : WOp) (hk : Knows w) (hp : Preceded w.out) :
    Knows (wstep true w op).1 ∧ Preceded (wstep true w op).1.out := by
  cases op with
  | addForeign i =>
    simp only [wstep]
    refine ⟨⟨?_, ?_⟩, preceded_snoc_other _ _ hp (by intro i t s g e; cases e)⟩
    · intro t; rw [typesOf_append]; simp [typesOf, hk.types t]
    · intro s; rw [sourcesOf_append]; simp [sourcesOf, hk.sources s]
  | addOntology ts ss ok =>
    cases ok with
    | false => exact ⟨hk, hp⟩
    | true =>
      simp only [wstep, if_true]
      refine ⟨⟨?_, ?_⟩, preceded_snoc_other _ _ hp (by intro i t s g e; cases e)⟩
      · intro t
        rw [typesOf_append, mem_canonS, List.mem_append, List.mem_append, hk.types t]
        simp [typesOf]
      · intro s
        rw [sourcesOf_append, mem_canonS, List.mem_append, List.mem_append, hk.sources s]
        simp [sourcesOf]
  | addEvent i t src g =>
    simp only [wstep]
    cases c1 : w.sources.contains src with
    | false => simp only [Bool.not_false, if_true]; exact ⟨hk, hp⟩
    | true =>
      cases c2 : w.types.contains t with
      | false => simp only [Bool.not_true, Bool.false_eq_true, if_false, Bool.not_false, if_true]; exact ⟨hk, hp⟩
      | true =>
        cases g with
        | false => simp only [Bool.not_true, Bool.false_eq_true, if_false, Bool.not_false, Bool.and_self, if_true]; exact ⟨hk, hp⟩
        | true =>
          simp only [Bool.not_true, Bool.false_eq_true, if_false, Bool.and_false]
          refine ⟨⟨?_, ?_⟩, ?_⟩
          · intro t'; rw [typesOf_append]; simp [typesOf, hk.types t']
          · intro s'; rw [sourcesOf_append]; simp [sourcesOf, hk.sources s']
          · intro pre i' t' s' g' post heq
            rcases List.append_eq_append_iff.mp heq with ⟨a', h1, h2⟩ | ⟨c', h1, h2⟩
            · cases a' with
              | nil =>
                simp only [List.nil_append, List.cons.injEq, Item.event.injEq] at h2
                obtain ⟨⟨_, rfl, rfl, _⟩, _⟩ := h2
                simp only [List.append_nil] at h1
                subst h1
                exact ⟨(hk.types t).mp (by simpa using c2), (hk.sources src).mp (by simpa using c1)⟩
              | cons x xs =>
                simp only [List.cons_append, List.cons.injEq] at h2
                have : xs ++ Item.event i' t' s' g' :: post = [] := h2.2.symm
                simp at this
            · cases c' with
              | nil =>
                simp only [List.nil_append, List.cons.injEq, Item.event.injEq] at h2
                obtain ⟨⟨_, rfl, rfl, _⟩, _⟩ := h2
                simp only [List.append_nil] at h1
                subst h1
                exact ⟨(hk.types t').mp (by simpa using c2), (hk.sources s').mp (by simpa using c1)⟩
              | cons x xs =>
                simp only [List.cons_append, List.cons.injEq] at h2
                obtain ⟨rfl, _⟩ := h2
                exact hp pre i' t' s' g' xs h1

theorem wrun_invariants : ∀ (ops : List WOp) (w : WState), Knows w → Preceded w.out →
    Knows (wrun true w ops) ∧ Preceded (wrun true w ops).out
  | [], w, hk, hp => ⟨hk, hp⟩
  | op :: ops, w, hk, hp => by
    simp only [wrun, List.foldl_cons]
    have := wstep_invariants w op hk hp
    exact wrun_invariants ops _ this.1 this.2

/-- C17: in the output of a mediator every event is preceded by ontology elements that define its
event type and its source -/
theorem ontology_precedes_events (ig : Bool) (types sources : List String) (cur : String) (ops : List MOp) :
    Preceded (mclose (mrun ig { types := types, sources := sources, curSource := cur } ops)).w.out := by
  have hc : Coherent (mclose (mrun ig { types := types, sources := sources, curSource := cur } ops)) :=
    mclose_coherent _ (mrun_coherent ig ops _ rfl)
  rw [hc]
  exact (wrun_invariants _ {} ⟨by intro t; simp [typesOf], by intro s; simp [sourcesOf]⟩
    (by intro pre i t s g post h; simp at h)).2

/-! ### invalid events: skipped or raised, never written -/

/-- an event the gate rejects leaves the output as it was (apart from the ontology update that
precedes every event), and the call raises exactly when invalid events are not ignored -/
theorem skipped_or_raised (ig : Bool) (s : MState) (e : GenEvent) (hg : e.gateOk = false) :
    (writeEvent ig s e).2 = (if ig then none else some PErr.eventValidation) ∧
    eventIdxs (writeEvent ig s e).1.w.out = eventIdxs s.w.out := by
  have key : ∀ (w : WState) (i : Nat) (t src : String), (wstep true w (.addEvent i t src false)) = (w, some PErr.eventValidation) := by
    intro w i t src
    simp only [wstep]
    split
    · rfl
    · split <;> simp
  unfold writeEvent MState.call
  simp only [hg]
  cases hu : s.upToDate with
  | true =>
    simp only [if_true, key]
    cases ig <;> simp
  | false =>
    simp only [Bool.false_eq_true, if_false, key, wstep, if_true]
    cases ig <;> simp [eventIdxs_append, eventIdxs]

theorem invalid_event_never_written (ig : Bool) (types sources : List String) (cur : String) (ops : List MOp) :
    let s := mclose (mrun ig { types := types, sources := sources, curSource := cur } ops)
    ∀ i t src, Item.event i t src false ∉ s.w.out := by
  intro s i t src hm
  have := mediator_writes_only_accepted ig types sources cur ops _ hm i t src false rfl
  cases this

/-! ### the same, when `ignore_invalid_events()` is called in mid session -/

theorem mrunF_coherent : ∀ (ops : List (Bool × MOp)) (s : MState), Coherent s → Coherent (mrunF s ops)
  | [], s, h => h
  | op :: ops, s, h => by
    simp only [mrunF, List.foldl_cons]
    exact mrunF_coherent ops _ (mstep_coherent op.1 s op.2 h)

/-- C17: the output of a mediator parses, holds only accepted events and has every event preceded by
its ontology, also when invalid events start (or stop) being ignored at any point of the session -/
theorem mediator_stream_any_setting (reg : Registry) (types sources : List String) (cur : String)
    (ops : List (Bool × MOp)) :
    let s := mclose (mrunF { types := types, sources := sources, curSource := cur } ops)
    (∃ p', prun reg {} s.w.out = (p', none) ∧ Agree reg s.w p') ∧
    (∀ it ∈ s.w.out, ∀ i t src g, it = Item.event i t src g → g = true) ∧ Preceded s.w.out := by
  intro s
  have hc : Coherent s := mclose_coherent _ (mrunF_coherent ops _ rfl)
  refine ⟨?_, ?_, ?_⟩
  · have := written_stream_parses_from_start reg true (fun _ => rfl) s.issued
    rw [← hc] at this
    exact this
  · rw [hc]
    exact only_valid_events_written true rfl s.issued {} (by intro it hit; cases hit)
  · rw [hc]
    exact (wrun_invariants _ {} ⟨by intro t; simp [typesOf], by intro s; simp [sourcesOf]⟩
      (by intro pre i t s g post h; simp at h)).2

/-- ... and an invalid event in the middle of a record does not keep the later events of that record
from being written once invalid events are ignored -/
theorem ignored_event_does_not_end_the_record (s : MState) (e : GenEvent) (es : List GenEvent) (hg : e.gateOk = false) :
    writeEvents true s (e :: es) = writeEvents true (writeEvent true s e).1 es := by
  have := (skipped_or_raised true s e hg).1
  simp only [if_true] at this
  simp only [writeEvents]
  cases hx : writeEvent true s e with
  | mk a b =>
    rw [hx] at this
    simp only at this
    subst this
    rfl

/-! ### Non-vacuity -/

example : (mclose (mrun false { types := ["t"], sources := ["/a/"], curSource := "/a/" }
    [.record [⟨1, "t", true⟩], .addSource "/b/", .setSource "/b/", .record [⟨2, "t", false⟩, ⟨3, "t", true⟩],
     .record [⟨4, "t", true⟩]])).w.out =
    [.ont .ok ["t"] ["/a/"], .event 1 "t" "/a/" true, .ont .ok ["t"] ["/a/", "/b/"], .event 4 "t" "/b/" true] := by
  decide +kernel

end EdxmlProps.C17
