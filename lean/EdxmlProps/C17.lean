/-
C17. Transcoder mediators always emit one valid, complete EDXML stream.

The mediator machine (model: `Stream/Mediator.lean`) only talks to the writer machine; its output
is therefore the output of a writer session, to which the theorems of C02 apply: the validating
parser reads it without error and delivers exactly the written events, in order. In addition:
every written event is preceded by an ontology element that defines its type and its source; only
gate-accepted events are written; an invalid event is skipped or makes the call raise, and is never
written.
-/
import EdxmlModel.Stream.Mediator
import EdxmlModel.Transcode.Lookup
import EdxmlProps.C02
import EdxmlProps.Lemmas.Merge
import Mathlib.Data.List.Induction
namespace EdxmlProps.C17
open Edxml EdxmlProps.C02

/-- the writer of the mediator is in the state that the calls issued so far lead to -/
def Coherent (s : MState) : Prop := s.w = wrun true {} s.issued

theorem wrun_snoc (v : Bool) (w : WState) (ops : List WOp) (op : WOp) :
    wrun v w (ops ++ [op]) = (wstep v (wrun v w ops) op).1 := by
  simp [wrun, List.foldl_append]

theorem call_coherent (s : MState) (op : WOp) (h : Coherent s) : Coherent (s.call op).1 := by
  unfold Coherent MState.call at *
  simp only
  rw [wrun_snoc, ← h]

theorem writeEvent_coherent (ig : Bool) (s : MState) (e : GenEvent) (h : Coherent s) :
    Coherent (writeEvent ig s e).1 := by
  unfold writeEvent
  simp only
  have h1 : Coherent (if s.upToDate then s else
      { (s.call (.addOntology s.types s.sources true)).1 with upToDate := true }) := by
    split
    · exact h
    · exact call_coherent s _ h
  have h2 := call_coherent _ (.addEvent e.idx e.type
    (if s.upToDate then s else { (s.call (.addOntology s.types s.sources true)).1 with upToDate := true }).curSource
    e.gateOk) h1
  split
  · exact h2
  · split <;> exact h2

theorem writeEvents_coherent (ig : Bool) : ∀ (es : List GenEvent) (s : MState), Coherent s →
    Coherent (writeEvents ig s es).1
  | [], s, h => h
  | e :: es, s, h => by
    unfold writeEvents
    have h1 := writeEvent_coherent ig s e h
    cases hw : writeEvent ig s e with
    | mk s' r =>
      rw [hw] at h1
      cases r with
      | none => exact writeEvents_coherent ig es s' h1
      | some err => exact h1

theorem mstep_coherent (ig : Bool) (s : MState) (op : MOp) (h : Coherent s) : Coherent (mstep ig s op).1 := by
  cases op with
  | addSource u => exact h
  | setSource u => exact h
  | record evs => exact writeEvents_coherent ig evs s h

theorem mrun_coherent (ig : Bool) : ∀ (ops : List MOp) (s : MState), Coherent s → Coherent (mrun ig s ops)
  | [], s, h => h
  | op :: ops, s, h => by
    simp only [mrun, List.foldl_cons]
    exact mrun_coherent ig ops _ (mstep_coherent ig s op h)

theorem mclose_coherent (s : MState) (h : Coherent s) : Coherent (mclose s) := by
  unfold mclose
  split
  · exact h
  · exact call_coherent s _ h

/-- C17: whatever records are processed and whatever sources are registered in between, with any
configuration, the children a mediator emits — up to any point, and after `close()` — are read by
the validating parser without error, which delivers exactly the written events, in order. -/
theorem mediator_stream_parses (reg : Registry) (ig : Bool) (types sources : List String) (cur : String)
    (ops : List MOp) :
    let s := mclose (mrun ig { types := types, sources := sources, curSource := cur } ops)
    ∃ p', prun reg {} s.w.out = (p', none) ∧ Agree reg s.w p' := by
  intro s
  have hc : Coherent s := mclose_coherent _ (mrun_coherent ig ops _ rfl)
  have := written_stream_parses_from_start reg true (fun _ => rfl) s.issued
  rw [← hc] at this
  exact this

/-- C17: only events that the gate accepted are ever written -/
theorem mediator_writes_only_accepted (ig : Bool) (types sources : List String) (cur : String) (ops : List MOp) :
    let s := mclose (mrun ig { types := types, sources := sources, curSource := cur } ops)
    ∀ it ∈ s.w.out, ∀ i t src g, it = Item.event i t src g → g = true := by
  intro s
  have hc : Coherent s := mclose_coherent _ (mrun_coherent ig ops _ rfl)
  rw [hc]
  exact only_valid_events_written true rfl s.issued {} (by intro it hit; cases hit)

/-! ### every event is preceded by the ontology it needs -/

def typesOf (items : List Item) : List String :=
  items.flatMap fun it => match it with | .ont _ ts _ => ts | _ => []
def sourcesOf (items : List Item) : List String :=
  items.flatMap fun it => match it with | .ont _ _ ss => ss | _ => []

/-- what the writer knows is what it has written -/
structure Knows (w : WState) : Prop where
  types : ∀ t, t ∈ w.types ↔ t ∈ typesOf w.out
  sources : ∀ s, s ∈ w.sources ↔ s ∈ sourcesOf w.out

/-- every event among the children comes after ontology elements defining its type and source -/
def Preceded (items : List Item) : Prop :=
  ∀ pre i t s g post, items = pre ++ Item.event i t s g :: post → t ∈ typesOf pre ∧ s ∈ sourcesOf pre

theorem typesOf_append (a b : List Item) : typesOf (a ++ b) = typesOf a ++ typesOf b := by
  simp [typesOf, List.flatMap_append]
theorem sourcesOf_append (a b : List Item) : sourcesOf (a ++ b) = sourcesOf a ++ sourcesOf b := by
  simp [sourcesOf, List.flatMap_append]

theorem preceded_snoc_other (items : List Item) (it : Item) (h : Preceded items)
    (hne : ∀ i t s g, it ≠ Item.event i t s g) : Preceded (items ++ [it]) := by
  intro pre i t s g post heq
  rcases List.append_eq_append_iff.mp heq with ⟨a', h1, h2⟩ | ⟨c', h1, h2⟩
  · -- pre = items ++ a'
    cases a' with
    | nil =>
      simp only [List.nil_append, List.cons.injEq] at h2
      exact absurd h2.1 (hne i t s g)
    | cons x xs =>
      simp only [List.cons_append, List.cons.injEq] at h2
      have : xs ++ Item.event i t s g :: post = [] := h2.2.symm
      simp at this
  · -- items = pre ++ c'
    cases c' with
    | nil =>
      simp only [List.nil_append] at h2
      simp only [List.cons.injEq] at h2
      exact absurd h2.1.symm (hne i t s g)
    | cons x xs =>
      simp only [List.cons_append, List.cons.injEq] at h2
      obtain ⟨rfl, hrest⟩ := h2
      exact h pre i t s g xs h1

theorem wstep_invariants (w : WState) (op : WOp) (hk : Knows w) (hp : Preceded w.out) :
    Knows (wstep true w op).1 ∧ Preceded (wstep true w op).1.out := by
  cases op with
  | addForeign i =>
    simp only [wstep]
    refine ⟨⟨?_, ?_⟩, preceded_snoc_other _ _ hp (by intro i t s g e; cases e)⟩
    · intro t; rw [typesOf_append]; simp [typesOf, hk.types t]
    · intro s; rw [sourcesOf_append]; simp [sourcesOf, hk.sources s]
  | addOntology ts ss ok =>
    cases ok with
    | false => exact ⟨hk, hp⟩
    | true =>
      simp only [wstep, if_true]
      refine ⟨⟨?_, ?_⟩, preceded_snoc_other _ _ hp (by intro i t s g e; cases e)⟩
      · intro t
        rw [typesOf_append, mem_canonS, List.mem_append, List.mem_append, hk.types t]
        simp [typesOf]
      · intro s
        rw [sourcesOf_append, mem_canonS, List.mem_append, List.mem_append, hk.sources s]
        simp [sourcesOf]
  | addEvent i t src g =>
    simp only [wstep]
    cases c1 : w.sources.contains src with
    | false => simp only [Bool.not_false, if_true]; exact ⟨hk, hp⟩
    | true =>
      cases c2 : w.types.contains t with
      | false => simp only [Bool.not_true, Bool.false_eq_true, if_false, Bool.not_false, if_true]; exact ⟨hk, hp⟩
      | true =>
        cases g with
        | false => simp only [Bool.not_true, Bool.false_eq_true, if_false, Bool.not_false, Bool.and_self, if_true]; exact ⟨hk, hp⟩
        | true =>
          simp only [Bool.not_true, Bool.false_eq_true, if_false, Bool.and_false]
          refine ⟨⟨?_, ?_⟩, ?_⟩
          · intro t'; rw [typesOf_append]; simp [typesOf, hk.types t']
          · intro s'; rw [sourcesOf_append]; simp [sourcesOf, hk.sources s']
          · intro pre i' t' s' g' post heq
            rcases List.append_eq_append_iff.mp heq with ⟨a', h1, h2⟩ | ⟨c', h1, h2⟩
            · cases a' with
              | nil =>
                simp only [List.nil_append, List.cons.injEq, Item.event.injEq] at h2
                obtain ⟨⟨_, rfl, rfl, _⟩, _⟩ := h2
                simp only [List.append_nil] at h1
                subst h1
                exact ⟨(hk.types t).mp (by simpa using c2), (hk.sources src).mp (by simpa using c1)⟩
              | cons x xs =>
                simp only [List.cons_append, List.cons.injEq] at h2
                have : xs ++ Item.event i' t' s' g' :: post = [] := h2.2.symm
                simp at this
            · cases c' with
              | nil =>
                simp only [List.nil_append, List.cons.injEq, Item.event.injEq] at h2
                obtain ⟨⟨_, rfl, rfl, _⟩, _⟩ := h2
                simp only [List.append_nil] at h1
                subst h1
                exact ⟨(hk.types t').mp (by simpa using c2), (hk.sources s').mp (by simpa using c1)⟩
              | cons x xs =>
                simp only [List.cons_append, List.cons.injEq] at h2
                obtain ⟨rfl, _⟩ := h2
                exact hp pre i' t' s' g' xs h1

theorem wrun_invariants : ∀ (ops : List WOp) (w : WState), Knows w → Preceded w.out →
    Knows (wrun true w ops) ∧ Preceded (wrun true w ops).out
  | [], w, hk, hp => ⟨hk, hp⟩
  | op :: ops, w, hk, hp => by
    simp only [wrun, List.foldl_cons]
    have := wstep_invariants w op hk hp
    exact wrun_invariants ops _ this.1 this.2

/-- C17: in the output of a mediator every event is preceded by ontology elements that define its
event type and its source -/
theorem ontology_precedes_events (ig : Bool) (types sources : List String) (cur : String) (ops : List MOp) :
    Preceded (mclose (mrun ig { types := types, sources := sources, curSource := cur } ops)).w.out := by
  have hc : Coherent (mclose (mrun ig { types := types, sources := sources, curSource := cur } ops)) :=
    mclose_coherent _ (mrun_coherent ig ops _ rfl)
  rw [hc]
  exact (wrun_invariants _ {} ⟨by intro t; simp [typesOf], by intro s; simp [sourcesOf]⟩
    (by intro pre i t s g post h; simp at h)).2

/-! ### invalid events: skipped or raised, never written -/

/-- an event the gate rejects leaves the output as it was (apart from the ontology update that
precedes every event), and the call raises exactly when invalid events are not ignored -/
theorem skipped_or_raised (ig : Bool) (s : MState) (e : GenEvent) (hg : e.gateOk = false) :
    (writeEvent ig s e).2 = (if ig then none else some PErr.eventValidation) ∧
    eventIdxs (writeEvent ig s e).1.w.out = eventIdxs s.w.out := by
  have key : ∀ (w : WState) (i : Nat) (t src : String), (wstep true w (.addEvent i t src false)) = (w, some PErr.eventValidation) := by
    intro w i t src
    simp only [wstep]
    split
    · rfl
    · split <;> simp
  unfold writeEvent MState.call
  simp only [hg]
  cases hu : s.upToDate with
  | true =>
    simp only [if_true, key]
    cases ig <;> simp
  | false =>
    simp only [Bool.false_eq_true, if_false, key, wstep, if_true]
    cases ig <;> simp [eventIdxs_append, eventIdxs]

theorem invalid_event_never_written (ig : Bool) (types sources : List String) (cur : String) (ops : List MOp) :
    let s := mclose (mrun ig { types := types, sources := sources, curSource := cur } ops)
    ∀ i t src, Item.event i t src false ∉ s.w.out := by
  intro s i t src hm
  have := mediator_writes_only_accepted ig types sources cur ops _ hm i t src false rfl
  cases this

/-! ### the same, when `ignore_invalid_events()` is called in mid session -/

theorem mrunF_coherent : ∀ (ops : List (Bool × MOp)) (s : MState), Coherent s → Coherent (mrunF s ops)
  | [], s, h => h
  | op :: ops, s, h => by
    simp only [mrunF, List.foldl_cons]
    exact mrunF_coherent ops _ (mstep_coherent op.1 s op.2 h)

/-- C17: the output of a mediator parses, holds only accepted events and has every event preceded by
its ontology, also when invalid events start (or stop) being ignored at any point of the session -/
theorem mediator_stream_any_setting (reg : Registry) (types sources : List String) (cur : String)
    (ops : List (Bool × MOp)) :
    let s := mclose (mrunF { types := types, sources := sources, curSource := cur } ops)
    (∃ p', prun reg {} s.w.out = (p', none) ∧ Agree reg s.w p') ∧
    (∀ it ∈ s.w.out, ∀ i t src g, it = Item.event i t src g → g = true) ∧ Preceded s.w.out := by
  intro s
  have hc : Coherent s := mclose_coherent _ (mrunF_coherent ops _ rfl)
  refine ⟨?_, ?_, ?_⟩
  · have := written_stream_parses_from_start reg true (fun _ => rfl) s.issued
    rw [← hc] at this
    exact this
  · rw [hc]
    exact only_valid_events_written true rfl s.issued {} (by intro it hit; cases hit)
  · rw [hc]
    exact (wrun_invariants _ {} ⟨by intro t; simp [typesOf], by intro s; simp [sourcesOf]⟩
      (by intro pre i t s g post h; simp at h)).2

/-- ... and an invalid event in the middle of a record does not keep the later events of that record
from being written once invalid events are ignored -/
theorem ignored_event_does_not_end_the_record (s : MState) (e : GenEvent) (es : List GenEvent) (hg : e.gateOk = false) :
    writeEvents true s (e :: es) = writeEvents true (writeEvent true s e).1 es := by
  have := (skipped_or_raised true s e hg).1
  simp only [if_true] at this
  simp only [writeEvents]
  cases hx : writeEvent true s e with
  | mk a b =>
    rw [hx] at this
    simp only at this
    subst this
    rfl

/-! ### Non-vacuity -/

example : (mclose (mrun false { types := ["t"], sources := ["/a/"], curSource := "/a/" }
    [.record [⟨1, "t", true⟩], .addSource "/b/", .setSource "/b/", .record [⟨2, "t", false⟩, ⟨3, "t", true⟩],
     .record [⟨4, "t", true⟩]])).w.out =
    [.ont .ok ["t"] ["/a/"], .event 1 "t" "/a/" true, .ont .ok ["t"] ["/a/", "/b/"], .event 4 "t" "/b/" true] := by
  decide +kernel

/-! ### object values are taken from the record fields named in the property map -/

section lookup
open Edxml.Transcode

theorem getProp_map_set (ps : List (String × List RVal)) (p q : String) (vs : List RVal) :
    getProp (ps.map fun kv => if kv.1 == p then (p, vs) else kv) q =
      if q = p then (if ps.any (·.1 == p) then some vs else none) else getProp ps q := by
  unfold getProp
  induction ps with
  | nil => by_cases hq : q = p <;> simp [hq]
  | cons kv rest ih =>
    obtain ⟨k, v⟩ := kv
    simp only [List.map_cons, List.find?_cons, List.any_cons]
    by_cases hk : k = p
    · subst hk
      by_cases hq : q = k
      · subst hq; simp
      · have hkq : (k == q) = false := by simpa using fun e => hq e.symm
        simp only [beq_self_eq_true, if_true, hkq, hq, if_false]
        simpa [hq] using ih
    · have hkp : (k == p) = false := by simpa using hk
      simp only [hkp, Bool.false_eq_true, if_false, Bool.false_or]
      by_cases hkq : k = q
      · subst hkq
        simp [hk]
      · have hb : (k == q) = false := by simpa using hkq
        simp only [hb]
        exact ih

theorem getProp_setProp (ps : List (String × List RVal)) (p q : String) (vs : List RVal) :
    getProp (setProp ps p vs) q = if q = p then some vs else getProp ps q := by
  unfold setProp
  by_cases hany : ps.any (·.1 == p) = true
  · rw [if_pos hany, getProp_map_set, hany]
    simp
  · rw [if_neg hany]
    have hnone : ∀ kv ∈ ps, (kv.1 == p) = false := by
      intro kv hkv
      have := hany
      simp only [List.any_eq_true, not_exists, not_and] at this
      simpa using this kv hkv
    unfold getProp
    rw [List.find?_append]
    by_cases hq : q = p
    · subst hq
      have : ps.find? (fun x => x.1 == q) = none := by
        rw [List.find?_eq_none]
        intro kv hkv
        simpa using hnone kv hkv
      simp [this]
    · have hb : (p == q) = false := by simpa using fun e => hq e.symm
      simp only [hq, if_false]
      cases hf : ps.find? (fun x => x.1 == q) with
      | some r => simp
      | none => simp [hb]

theorem getProp_setAll (ps : List (String × List RVal)) (names : List String) (vs : List RVal) (q : String) :
    getProp (names.foldl (fun ps p => setProp ps p vs) ps) q = if q ∈ names then some vs else getProp ps q := by
  induction names generalizing ps with
  | nil => simp
  | cons n rest ih =>
    simp only [List.foldl_cons, List.mem_cons]
    rw [ih, getProp_setProp]
    by_cases h1 : q ∈ rest
    · simp [h1]
    · by_cases h2 : q = n <;> simp [h1, h2]

/-- one more entry of the property map: the properties it names receive the values of its field when
the field is found; everything else stays -/
theorem generateProps_snoc (r : RVal) (pmap : List MapEntry) (e : MapEntry) (q : String) :
    getProp (generateProps r (pmap ++ [e])) q =
      match fieldValues e.empty (descend r (pathOf e.selector)) with
      | some vs => if q ∈ e.props then some vs else getProp (generateProps r pmap) q
      | none => getProp (generateProps r pmap) q := by
  unfold generateProps
  rw [List.foldl_append]
  simp only [List.foldl_cons, List.foldl_nil]
  cases hf : fieldValues e.empty (descend r (pathOf e.selector)) with
  | none => rfl
  | some vs => exact getProp_setAll _ e.props vs q

/-- **C17: object values are taken from the record fields named in the property map**: whatever a
generated event holds for a property are the values of a field whose path the property map names
for that property (the last such path that leads somewhere) -/
theorem generated_from_named_fields (r : RVal) (pmap : List MapEntry) (q : String) (vs : List RVal)
    (h : getProp (generateProps r pmap) q = some vs) :
    ∃ e ∈ pmap, q ∈ e.props ∧ fieldValues e.empty (descend r (pathOf e.selector)) = some vs := by
  induction pmap using List.reverseRecOn with
  | nil => simp [generateProps, getProp] at h
  | append_singleton pre e ih =>
    rw [generateProps_snoc] at h
    cases hf : fieldValues e.empty (descend r (pathOf e.selector)) with
    | none =>
      rw [hf] at h
      obtain ⟨e', he', hq, hv⟩ := ih h
      exact ⟨e', by simp [he'], hq, hv⟩
    | some ws =>
      rw [hf] at h
      simp only at h
      by_cases hq : q ∈ e.props
      · rw [if_pos hq] at h
        cases h
        exact ⟨e, by simp, hq, hf⟩
      · rw [if_neg hq] at h
        obtain ⟨e', he', hq', hv⟩ := ih h
        exact ⟨e', by simp [he'], hq', hv⟩

/-- what a found field gives: the members of a list that are not empty values, a rendered boolean,
the scalar itself unless it is an empty value -/
theorem fieldValues_spec (empty : List RVal) (v : RVal) (vs : List RVal) (h : fieldValues empty v = some vs) :
    match v with
    | .null => False
    | .list l => ∀ x, x ∈ vs ↔ x ∈ l ∧ isEmptyVal empty x = false
    | .bool b => vs = [.str (if b then "true" else "false")]
    | .int n => vs = if isEmptyVal empty (.int n) then [] else [.int n]
    | .str s => vs = if isEmptyVal empty (.str s) then [] else [.str s]
    | .obj kv => vs = if isEmptyVal empty (.obj kv) then [] else [.obj kv] := by
  cases v with
  | null => simp [fieldValues] at h
  | list l =>
    simp only [fieldValues, Option.some.injEq] at h
    subst h
    intro x
    simp [List.mem_filter]
  | bool b => simp only [fieldValues, Option.some.injEq] at h; exact h.symm
  | int n => simp only [fieldValues, Option.some.injEq] at h; exact h.symm
  | str s => simp only [fieldValues, Option.some.injEq] at h; exact h.symm
  | obj kv => simp only [fieldValues, Option.some.injEq] at h; exact h.symm

/-- a path that leads nowhere stays nowhere: nothing is made up below a missing field -/
theorem descend_null (path : List String) : descend .null path = .null := by
  induction path with
  | nil => rfl
  | cons f rest ih => simp only [descend, step]; exact ih

def exRec : RVal := .obj [("name", .str "alice"), ("sub", .obj [("n", .int 7)]), ("tags", .list [.str "a", .str "", .str "b"]),
  ("flag", .bool true)]
def exMap : List MapEntry := [⟨"name", ["name", "label"], [.str ""]⟩, ⟨"sub.n", ["n"], [.str ""]⟩, ⟨"tags", ["tags"], [.str ""]⟩,
  ⟨"flag", ["flag"], [.str ""]⟩, ⟨"missing.x", ["name"], [.str ""]⟩]
example : pathOf "a..b.0" = ["a", "", "b", "0"] := by decide +kernel
example : (generateProps exRec exMap).map (·.1) = ["name", "label", "n", "tags", "flag"] := by decide +kernel
example : (generateProps exRec exMap).map (·.2.length) = [1, 1, 1, 2, 1] := by decide +kernel
example : (match getProp (generateProps exRec exMap) "n" with | some [.int 7] => true | _ => false) = true := by decide +kernel

end lookup

end EdxmlProps.C17
