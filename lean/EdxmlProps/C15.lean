/-
C15. Damaged input fails safely: what the parser state machine (model: `Stream/Parser.lean`, tied
to the code by the C14/C15 correspondence) guarantees about the callbacks that precede an error.

With validation enabled, every event that reaches a handler was accepted by the validation gate
and refers to an event type and a source that an ontology callback has announced; processing
stops at the first rejected element, so nothing after it is delivered. That parsing raises no
exception outside the EDXML error family and does not hang is runtime behaviour that no model
exhibits: the check decides it by mutation fuzzing only (see DESIGN.md, C15).
-/
import EdxmlModel.Stream.Parser
import EdxmlProps.Lemmas.Parser
namespace EdxmlProps.C15
open Edxml

/-- the event a callback delivers, if it delivers one -/
def deliveredEvent : Callback → Option Nat
  | .handler _ e => some e
  | .fallback e => some e
  | _ => none

/-- the events of the log all come from accepted event items -/
def LogOk (reg : Registry) (items : List Item) (log : List Callback) : Prop :=
  ∀ cb ∈ log, ∀ idx, deliveredEvent cb = some idx →
    ∃ t s g, Item.event idx t s g ∈ items ∧ (reg.validate = true → g = true)

theorem logOk_mono (reg : Registry) (a b : List Item) (log : List Callback) (h : LogOk reg a log) :
    LogOk reg (a ++ b) log := by
  intro cb hcb idx hd
  obtain ⟨t, s, g, hm, hg⟩ := h cb hcb idx hd
  exact ⟨t, s, g, List.mem_append_left _ hm, hg⟩

theorem dispatch_delivers (reg : Registry) (pm : List (String × List String)) (idx : Nat) (t s : String) :
    ∀ cb ∈ dispatch reg pm idx t s, ∀ i, deliveredEvent cb = some i → i = idx := by
  intro cb hcb i hi
  unfold dispatch at hcb
  split at hcb
  · split at hcb
    · simp only [List.mem_singleton] at hcb; subst hcb; simp only [deliveredEvent, Option.some.injEq] at hi; exact hi.symm
    · cases hcb
  · obtain ⟨h, _, rfl⟩ := List.mem_map.mp hcb
    simp only [deliveredEvent, Option.some.injEq] at hi; exact hi.symm

theorem processOnt_log (reg : Registry) (s : PState) (ts ss : List String) :
    ∀ cb ∈ (processOnt reg s ts ss).log, cb ∈ s.log ∨ deliveredEvent cb = none := by
  intro cb hcb
  simp only [processOnt, List.mem_append, List.mem_singleton] at hcb
  rcases hcb with h | rfl
  · exact Or.inl h
  · exact Or.inr rfl

theorem reprocess_log (reg : Registry) : ∀ (n : Nat) (s : PState),
    ∀ cb ∈ (reprocess reg n s).log, cb ∈ s.log ∨ deliveredEvent cb = none
  | 0, s, cb, h => Or.inl h
  | n + 1, s, cb, h => by
    rcases reprocess_log reg n _ cb h with h1 | h1
    · exact processOnt_log reg s [] [] cb h1
    · exact Or.inr h1

/-- one step only adds callbacks that deliver no event, or the dispatch of an accepted event -/
theorem pstep_logOk (reg : Registry) (pre : List Item) (s : PState) (it : Item) (h : LogOk reg pre s.log) :
    LogOk reg (pre ++ [it]) (pstep reg s it).1.log := by
  have hm := logOk_mono reg pre [it] s.log h
  cases it with
  | foreign i =>
    intro cb hcb idx hd
    simp only [pstep, List.mem_append, List.mem_singleton] at hcb
    rcases hcb with hc | rfl
    · exact hm cb hc idx hd
    · cases hd
  | ont v ts ss =>
    intro cb hcb idx hd
    have key : cb ∈ s.log ∨ deliveredEvent cb = none := by
      cases v with
      | ok =>
        simp only [pstep] at hcb
        split at hcb <;> exact processOnt_log reg _ ts ss cb hcb
      | semFail => exact Or.inl hcb
      | schemaSemFail => exact Or.inl hcb
      | schemaSemOk => exact Or.inl hcb
    rcases key with hk | hk
    · exact hm cb hk idx hd
    · rw [hk] at hd; cases hd
  | event i t src g =>
    intro cb hcb idx hd
    simp only [pstep] at hcb
    split at hcb
    · exact hm cb hcb idx hd
    · split at hcb
      · exact hm cb hcb idx hd
      · split at hcb
        · exact hm cb hcb idx hd
        · split at hcb
          · exact hm cb hcb idx hd
          · rename_i hgate
            have hcb' : cb ∈ s.log ∨ cb ∈ dispatch reg s.patMap i t src := by
              split at hcb <;> simpa [List.mem_append] using hcb
            rcases hcb' with hc | hc
            · exact hm cb hc idx hd
            · have := dispatch_delivers reg _ i t src cb hc idx hd
              subst this
              refine ⟨t, src, g, by simp, ?_⟩
              intro hv
              simp only [hv, Bool.true_and, Bool.not_eq_true', Bool.not_eq_false] at hgate
              simpa using hgate

/-- C15: for every document and every point at which parsing ends (normally or with an error),
every event delivered to a handler is an event item the validation gate accepted. -/
theorem rejected_never_delivered (reg : Registry) : ∀ (items pre : List Item) (s : PState),
    LogOk reg pre s.log → LogOk reg (pre ++ items) (prun reg s items).1.log
  | [], pre, s, h => by simpa [prun] using h
  | it :: rest, pre, s, h => by
    have hs := pstep_logOk reg pre s it h
    unfold prun
    cases hp : pstep reg s it with
    | mk s' e =>
      rw [hp] at hs
      cases e with
      | none =>
        have := rejected_never_delivered reg rest (pre ++ [it]) s' hs
        simpa [List.append_assoc] using this
      | some err =>
        have := logOk_mono reg (pre ++ [it]) rest s'.log hs
        simpa [List.append_assoc] using this

theorem rejected_never_delivered_doc (reg : Registry) (items : List Item) :
    LogOk reg items (prun reg {} items).1.log := by
  have := rejected_never_delivered reg items [] {} (by intro cb hcb; cases hcb)
  simpa using this

/-- C15: processing stops at the first rejected element: what follows it has no influence on
what was delivered or on the error -/
theorem stops_at_first_error (reg : Registry) (a b : List Item) (s s' : PState) (e : PErr)
    (h : prun reg s a = (s', some e)) : prun reg s (a ++ b) = (s', some e) := by
  rw [prun_append, h]

/-- the error of a gate-rejected event -/
theorem gate_rejection_raises (reg : Registry) (s : PState) (i : Nat) (t src : String) (ts ss : List String)
    (ho : s.ont = some (ts, ss)) (h1 : ss.contains src = true) (h2 : ts.contains t = true) (hv : reg.validate = true) :
    (pstep reg s (.event i t src false)).2 = some .eventValidation := by
  simp [pstep, ho, h1, h2, hv]

/-! ### Non-vacuity -/

example : (prun ⟨[("t", [1])], [], [], false, true⟩ {}
    [.ont .ok ["t"] ["/s/"], .event 0 "t" "/s/" true, .event 1 "t" "/s/" false, .event 2 "t" "/s/" true]).1.log =
    [.ontology ["t"] ["/s/"], .handler 1 0] := by decide +kernel

/-- **C15: an ontology element that the gate rejects reaches no callback and leaves the parser's
ontology alone**: whatever the reason of the rejection (an incompatible definition, a schema
violation, with or without a definition that `Ontology.update` would have taken), the step raises the
ontology validation error, and neither the callback log nor the ontology the parser holds changes -/
theorem rejected_ontology_not_delivered (reg : Registry) (s : PState) (v : OntV) (ts ss : List String) (hv : v ≠ .ok) :
    (pstep reg s (.ont v ts ss)).2 = some .ontologyValidation ∧
    (pstep reg s (.ont v ts ss)).1.log = s.log ∧ (pstep reg s (.ont v ts ss)).1.ont = s.ont := by
  cases v with
  | ok => exact absurd rfl hv
  | semFail => exact ⟨rfl, rfl, rfl⟩
  | schemaSemFail => exact ⟨rfl, rfl, rfl⟩
  | schemaSemOk => exact ⟨rfl, rfl, rfl⟩

end EdxmlProps.C15
