/-
Axiom audit: `#audit_ns N` prints, as one JSON line, every theorem whose name starts with `N.`
together with the axioms it depends on (what `#print axioms` reports). A `sorry` anywhere in a
proof shows up as the axiom `sorryAx`.
-/
import Lean
open Lean Elab Command

elab "#audit_ns " ns:ident : command => do
  let env ← getEnv
  let nsName := ns.getId
  let mut names : Array Name := #[]
  for (n, ci) in env.constants.toList do
    if nsName.isPrefixOf n && n != nsName && !n.isInternalDetail then
      match ci with
      | .thmInfo _ => names := names.push n
      | _ => pure ()
  let sorted := names.qsort (fun a b => a.toString < b.toString)
  let mut items : Array Json := #[]
  for n in sorted do
    let axs ← Lean.collectAxioms n
    items := items.push (Json.mkObj [("name", n.toString),
      ("axioms", Json.arr (axs.map fun a => Json.str a.toString))])
  IO.println s!"AUDIT-JSON {(Json.arr items).compress}"
