/-
C16. A validated template always evaluates.

Model: `EdxmlModel/Template/Template.lean`. If a template passes `validate` for an event type, then
for every event whose boolean objects are `true`/`false` and whose datetime objects can be written
out, `evaluate` yields a string: none of the error branches (bad boolean, bad date, argument list
of the wrong shape, unbalanced brackets) is reachable. A placeholder has no value exactly when it
stands for no string or for empty strings only; closing an emptied scope leaves the enclosing scope
as it was.
-/
import EdxmlModel.Template.Template
import EdxmlProps.Lemmas.Scan
namespace EdxmlProps.C16
open Edxml Edxml.Tpl

/-- what a valid event guarantees about the objects the formatters look at -/
structure EnvOk (et : EType) (env : Env) : Prop where
  booleans : ∀ p, et.dataType p = some "boolean" → ∀ v ∈ env.raw p, v = "true" ∨ v = "false"
  dates : ∀ p acc, et.dataType p = some "datetime" → acc ∈ accuracies → ∀ v ∈ env.raw p, (env.renderDate acc v).isSome
  spans : ∀ a b x y, et.dataType a = some "datetime" → et.dataType b = some "datetime" → x ∈ env.raw a → y ∈ env.raw b →
    (env.renderSpan x y).isSome ∧ (env.renderDuration x y).isSome

def isErr : PhOut → Bool
  | .error _ => true
  | _ => false

theorem minStr_mem : ∀ (l : List String) (x : String), minStr l = some x → x ∈ l
  | [], _, h => by cases h
  | a :: as, x, h => by
    simp only [minStr, Option.some.injEq] at h
    subst h
    have : ∀ (l : List String) (m : String), l.foldl (fun m y => if y < m then y else m) m ∈ m :: l := by
      intro l
      induction l with
      | nil => intro m; simp
      | cons y ys ih =>
        intro m
        simp only [List.foldl_cons]
        have := ih (if y < m then y else m)
        rcases List.mem_cons.mp this with h | h
        · rw [h]; split <;> simp
        · simp [h]
    exact this as a

theorem mapM'_ok (f : String → Option String) (e : Err) (l : List String) (h : ∀ v ∈ l, (f v).isSome) :
    isErr (mapM' f e l) = false := by
  unfold mapM'
  have : ∃ r, l.mapM f = some r := by
    induction l with
    | nil => exact ⟨[], rfl⟩
    | cons a as ih =>
      obtain ⟨r, hr⟩ := ih (fun v hv => h v (by simp [hv]))
      obtain ⟨b, hb⟩ := Option.isSome_iff_exists.mp (h a (by simp))
      exact ⟨b :: r, by simp [List.mapM_cons, hb, hr]⟩
  obtain ⟨r, hr⟩ := this
  rw [hr]; rfl

theorem length_two {α} {l : List α} (h : l.length = 2) : ∃ a b, l = [a, b] := by
  match l, h with
  | [a, b], _ => exact ⟨a, b, rfl⟩
theorem length_one {α} {l : List α} (h : l.length = 1) : ∃ a, l = [a] := by
  match l, h with
  | [a], _ => exact ⟨a, rfl⟩
theorem length_three {α} {l : List α} (h : l.length = 3) : ∃ a b c, l = [a, b, c] := by
  match l, h with
  | [a, b, c], _ => exact ⟨a, b, c, rfl⟩

/-- C16: a placeholder that passed validation cannot make the evaluation fail -/
theorem phOut_ok (et : EType) (env : Env) (ok : EnvOk et env) (f : Option String) (args : List String)
    (h : validPh et f args = true) : isErr (phOut env f args) = false := by
  unfold validPh at h
  simp only [Bool.and_eq_true] at h
  obtain ⟨hk, h⟩ := h
  cases hs : splitArgs f args with
  | none => rw [hs] at h; cases h
  | some pa =>
    obtain ⟨pargs, oargs⟩ := pa
    rw [hs] at h
    simp only [Bool.and_eq_true] at h
    obtain ⟨⟨⟨⟨⟨hp, hc⟩, hdt⟩, hb⟩, hacc⟩, hatt⟩ := h
    cases f with
    | none =>
      simp only [splitArgs, propertyCount] at hs
      split at hs
      · cases hs
      · match args with
        | [] => simp at *
        | p :: rest => rfl
    | some name =>
      simp only [List.contains_iff_mem, knownFormatters, List.mem_cons, List.mem_nil_iff, or_false] at hk
      rcases hk with rfl | rfl | rfl | rfl | rfl | rfl | rfl | rfl | rfl | rfl | rfl
      · -- time_span
        simp only [argumentCount, beq_iff_eq] at hc
        obtain ⟨a, b, rfl⟩ := length_two hc
        simp only [splitArgs, propertyCount, List.length_cons, List.length_nil, Nat.lt_irrefl, if_false, List.take,
          Option.some.injEq, Prod.mk.injEq] at hs
        obtain ⟨rfl, _⟩ := hs
        simp only [phOut]
        simp only [beq_self_eq_true, Bool.true_or, if_true, List.all_cons, List.all_nil, Bool.and_true, Bool.and_eq_true,
          beq_iff_eq] at hdt
        cases h1 : minStr (env.raw a) with
        | none => rfl
        | some x =>
          cases h2 : minStr (env.raw b) with
          | none => rfl
          | some y =>
            have := (ok.spans a b x y hdt.1 hdt.2 (minStr_mem _ _ h1) (minStr_mem _ _ h2)).1
            obtain ⟨s, hs'⟩ := Option.isSome_iff_exists.mp this
            simp [hs', isErr]
      · -- date_time
        simp only [argumentCount, beq_iff_eq] at hc
        obtain ⟨p, acc, rfl⟩ := length_two hc
        simp only [splitArgs, propertyCount, List.length_cons, List.length_nil, if_false, List.take, List.drop,
          Option.some.injEq, Prod.mk.injEq] at hs
        simp only [show ¬ (0 + 1 + 1 < 1) by omega, if_false, Option.some.injEq, Prod.mk.injEq] at hs
        obtain ⟨rfl, rfl⟩ := hs
        simp only [phOut]
        simp only [beq_self_eq_true, Bool.or_true, if_true, List.all_cons, List.all_nil, Bool.and_true, beq_iff_eq] at hdt hacc
        exact mapM'_ok _ _ _ (fun v hv => ok.dates p acc hdt (by simpa using hacc) v hv)
      · -- duration
        simp only [argumentCount, beq_iff_eq] at hc
        obtain ⟨a, b, rfl⟩ := length_two hc
        simp only [splitArgs, propertyCount, List.length_cons, List.length_nil, Nat.lt_irrefl, if_false, List.take,
          Option.some.injEq, Prod.mk.injEq] at hs
        obtain ⟨rfl, _⟩ := hs
        simp only [phOut]
        simp only [beq_self_eq_true, Bool.true_or, Bool.or_true, if_true, List.all_cons, List.all_nil, Bool.and_true, Bool.and_eq_true,
          beq_iff_eq] at hdt
        cases h1 : minStr (env.raw a) with
        | none => rfl
        | some x =>
          cases h2 : minStr (env.raw b) with
          | none => rfl
          | some y =>
            have := (ok.spans a b x y hdt.1 hdt.2 (minStr_mem _ _ h1) (minStr_mem _ _ h2)).2
            obtain ⟨s, hs'⟩ := Option.isSome_iff_exists.mp this
            simp [hs', isErr]
      · -- merge
        rfl
      · -- attachment
        simp only [argumentCount, beq_iff_eq] at hc
        obtain ⟨a, rfl⟩ := length_one hc
        rfl
      · -- boolean_string_choice
        simp only [argumentCount, beq_iff_eq] at hc
        obtain ⟨p, t, fl, rfl⟩ := length_three hc
        simp only [splitArgs, propertyCount, List.length_cons, List.length_nil, List.take, List.drop] at hs
        simp only [show ¬ (0 + 1 + 1 + 1 < 1) by omega, if_false, Option.some.injEq, Prod.mk.injEq] at hs
        obtain ⟨rfl, _⟩ := hs
        simp only [phOut]
        simp only [beq_self_eq_true, Bool.true_or, if_true, List.all_cons, List.all_nil, Bool.and_true, beq_iff_eq] at hb
        apply mapM'_ok
        intro v hv
        rcases ok.booleans p hb v hv with rfl | rfl <;> simp
      · -- boolean_on_off
        simp only [argumentCount, beq_iff_eq] at hc
        obtain ⟨p, rfl⟩ := length_one hc
        simp only [splitArgs, propertyCount, List.length_cons, List.length_nil, Nat.lt_irrefl, if_false, List.take,
          Option.some.injEq, Prod.mk.injEq] at hs
        obtain ⟨rfl, _⟩ := hs
        simp only [phOut]
        simp only [beq_self_eq_true, Bool.true_or, Bool.or_true, if_true, List.all_cons, List.all_nil, Bool.and_true, beq_iff_eq] at hb
        apply mapM'_ok
        intro v hv
        rcases ok.booleans p hb v hv with rfl | rfl <;> simp
      · -- boolean_is_is_not
        simp only [argumentCount, beq_iff_eq] at hc
        obtain ⟨p, rfl⟩ := length_one hc
        simp only [splitArgs, propertyCount, List.length_cons, List.length_nil, Nat.lt_irrefl, if_false, List.take,
          Option.some.injEq, Prod.mk.injEq] at hs
        obtain ⟨rfl, _⟩ := hs
        simp only [phOut]
        simp only [beq_self_eq_true, Bool.true_or, Bool.or_true, if_true, List.all_cons, List.all_nil, Bool.and_true, beq_iff_eq] at hb
        apply mapM'_ok
        intro v hv
        rcases ok.booleans p hb v hv with rfl | rfl <;> simp
      · -- empty
        simp only [argumentCount, beq_iff_eq] at hc
        obtain ⟨p, t, rfl⟩ := length_two hc
        rfl
      · -- unless_empty
        have hpc : propertyCount (some "unless_empty") = none := by decide
        unfold splitArgs at hs
        rw [hpc] at hs
        simp only [show (some "unless_empty" == some "merge") = false by decide, Bool.false_eq_true, if_false,
          beq_self_eq_true, if_true] at hs
        simp only [phOut]
        cases hg : args.getLast? with
        | none =>
          have : args = [] := List.getLast?_eq_none_iff.mp hg
          subst this; simp at hs
        | some t => rfl
      · -- url
        simp only [argumentCount, beq_iff_eq] at hc
        obtain ⟨p, n, rfl⟩ := length_two hc
        rfl

theorem replacements_ok (et : EType) (env : Env) (ok : EnvOk et env) : ∀ (segs : List Seg),
    segs.all (validSeg et) = true → ∃ r, replacements env segs = .ok r
  | [], _ => ⟨_, rfl⟩
  | .text s :: r, h => by
    simp only [List.all_cons, Bool.and_eq_true] at h
    obtain ⟨x, hx⟩ := replacements_ok et env ok r h.2
    simp only [replacements, hx]
    cases x <;> exact ⟨_, rfl⟩
  | .ph f args :: r, h => by
    simp only [List.all_cons, Bool.and_eq_true, validSeg] at h
    have hp := phOut_ok et env ok f args h.1
    obtain ⟨x, hx⟩ := replacements_ok et env ok r h.2
    simp only [replacements]
    cases hph : phOut env f args with
    | error e => rw [hph] at hp; cases hp
    | collapse => exact ⟨_, rfl⟩
    | strings l =>
      simp only [hx]
      cases x <;> exact ⟨_, rfl⟩

theorem evalStr_ok (et : EType) (env : Env) (ok : EnvOk et env) (segs : List Seg)
    (h : segs.all (validSeg et) = true) : ∃ s, evalStr env segs = .ok s := by
  obtain ⟨r, hr⟩ := replacements_ok et env ok segs h
  unfold evalStr
  rw [hr]
  cases r with
  | none => exact ⟨_, rfl⟩
  | some parts =>
    simp only
    split <;> exact ⟨_, rfl⟩

/-- C16: the scope machine never gets stuck on a validated template -/
theorem evalNodes_total_on_valid (et : EType) (env : Env) (ok : EnvOk et env) : ∀ (toks : List Tok) (d : Nat)
    (stack : List Frame), stack.length = d + 1 → balanced d toks = true → toks.all (tokValid et) = true →
    ∃ top, runToks env stack toks = .ok [top]
  | [], d, stack, hl, hb, _ => by
    simp only [balanced, beq_iff_eq] at hb
    subst hb
    obtain ⟨top, rfl⟩ := length_one hl
    exact ⟨top, rfl⟩
  | .run segs :: r, d, stack, hl, hb, hv => by
    simp only [List.all_cons, Bool.and_eq_true, tokValid] at hv
    simp only [balanced] at hb
    match stack, hl with
    | top :: rest, hl =>
      obtain ⟨s, hs⟩ := evalStr_ok et env ok segs hv.1
      have : ∃ st, step env (top :: rest) (.run segs) = .ok st ∧ st.length = d + 1 := by
        simp only [step]
        split
        · exact ⟨_, rfl, hl⟩
        · rw [hs]
          by_cases he : s = ""
          · subst he; exact ⟨_, rfl, by simpa using hl⟩
          · refine ⟨{ top with acc := top.acc ++ s } :: rest, ?_, by simpa using hl⟩
            cases s using String.casesOn  -- keep the match from reducing on the literal
            simp_all
      obtain ⟨st, h1, h2⟩ := this
      simp only [runToks, h1]
      exact evalNodes_total_on_valid et env ok r d st h2 hb hv.2
  | .openScope :: r, d, stack, hl, hb, hv => by
    simp only [List.all_cons, Bool.and_eq_true] at hv
    simp only [balanced] at hb
    match stack, hl with
    | top :: rest, hl =>
      simp only [runToks, step]
      exact evalNodes_total_on_valid et env ok r (d + 1) _ (by simpa using hl) hb hv.2
  | .closeScope :: r, d, stack, hl, hb, hv => by
    simp only [List.all_cons, Bool.and_eq_true] at hv
    simp only [balanced] at hb
    split at hb
    · cases hb
    · rename_i hd
      have hd' : d ≠ 0 := by simpa using hd
      match stack, hl with
      | top :: parent :: rest, hl =>
        simp only [runToks, step]
        exact evalNodes_total_on_valid et env ok r (d - 1) _ (by simp at hl ⊢; omega) hb hv.2
      | [top], hl => simp at hl; omega

/-- C16: if a template passes validation for an event type, evaluating it for any valid event of
that type returns a string -/
theorem validated_evaluates (et : EType) (env : Env) (ok : EnvOk et env) (toks : List Tok)
    (h : validate et toks = true) : ∃ s, evaluate env toks = .ok s := by
  unfold validate at h
  simp only [Bool.and_eq_true] at h
  have hv : toks.all (tokValid et) = true := h.2
  obtain ⟨top, ht⟩ := evalNodes_total_on_valid et env ok toks 0 [{}] rfl h.1 hv
  unfold evaluate
  rw [ht]
  exact ⟨_, rfl⟩

/-- the verdict of `validate` is sound for the argument shapes the evaluator destructures -/
theorem validate_sound (et : EType) (f : Option String) (args : List String) (h : validPh et f args = true) :
    (match f with | some n => n ∈ knownFormatters | none => True) ∧ (splitArgs f args).isSome := by
  unfold validPh at h
  simp only [Bool.and_eq_true] at h
  constructor
  · cases f with
    | none => trivial
    | some n => simpa using h.1
  · cases hs : splitArgs f args with
    | none => rw [hs] at h; cases h.2
    | some _ => rfl

/-! ### from the template string -/

/-- C16: searching the whole template for placeholders that contain no curly bracket (what
`Template.validate` does) finds exactly the placeholders that evaluation finds in the strings
between the curly brackets -/
theorem placeholders_found_alike (cs : List Char) :
    findAll stopValidate cs = (runsOf cs).flatMap (findAll stopEval) := findAll_runs _ _ (Nat.le_refl _)

/-- C16: validation judges exactly the placeholders that evaluation will replace -/
theorem validation_judges_what_is_evaluated (et : EType) (s : String) :
    validateStr et s = validate et (tokenize s) := validateStr_eq et s

/-- C16, for template strings: a template that passes validation for an event type evaluates to a
string for every valid event of that type -/
theorem validated_string_evaluates (et : EType) (env : Env) (ok : EnvOk et env) (s : String)
    (h : validateStr et s = true) : ∃ r, evaluateStr env s = .ok r := by
  rw [validateStr_eq] at h
  exact validated_evaluates et env ok (tokenize s) h

/-- C16: scanning loses nothing — the text and the placeholders of a string, written out one after
the other, are the string -/
theorem scan_loses_nothing (cs : List Char) : (scan cs).flatMap (fun s => (segText s).toList) = cs :=
  scan_lossless cs

/-- every placeholder that passes validation has an argument, so the validator's reading of the
arguments (`['']` counts as none) and the evaluator's (`split(',')`) coincide on it -/
theorem valid_placeholder_has_arguments (et : EType) (f : Option String) (h : validPh et f [] = true) : False := by
  unfold validPh at h
  simp only [Bool.and_eq_true] at h
  obtain ⟨hk, h⟩ := h
  cases f with
  | none => simp [splitArgs, propertyCount] at h
  | some name =>
    simp only [List.contains_iff_mem, knownFormatters, List.mem_cons, List.mem_nil_iff, or_false] at hk
    rcases hk with rfl | rfl | rfl | rfl | rfl | rfl | rfl | rfl | rfl | rfl | rfl <;>
      simp [splitArgs, propertyCount, argumentCount] at h

theorem arguments_read_alike (a : List Char) (h : argsOf a ≠ []) : argsOf a = rawArgs a := by
  unfold argsOf at h ⊢
  split
  · rename_i he; simp [he] at h
  · rfl

/-! ### which scopes are omitted -/

/-- a placeholder without formatter, and `merge`, stand for every object of their properties -/
theorem renders_every_object (env : Env) (p : String) (rest ps : List String) :
    phOut env none (p :: rest) = .strings (env.shown p) ∧
    phOut env (some "merge") ps = .strings (ps.flatMap env.raw) := ⟨rfl, rfl⟩

theorem join_nil_of_all_empty : ∀ (l : List String), (∀ x ∈ l, x = "") → String.join l = ""
  | [], _ => rfl
  | x :: xs, h => by
    have hx : x = "" := h x (by simp)
    subst hx
    simp only [String.join, List.foldl_cons, String.append_empty]
    exact join_nil_of_all_empty xs (fun y hy => h y (by simp [hy]))

/-- a placeholder has no value — and empties its string, hence its scope — exactly when it stands
for no string at all or for empty strings only -/
theorem collapse_iff (l : List String) : joinObjects l = "" ↔ String.join l = "" := by
  match l with
  | [] => simp [joinObjects, String.join]
  | [x] => simp [joinObjects, String.join]
  | a :: b :: r =>
    simp only [joinObjects]
    by_cases hj : (String.join (a :: b :: r) == "") = true
    · simp only [hj, if_true, true_iff]; simpa using hj
    · simp only [hj, Bool.false_eq_true, if_false]
      have hne : String.join (a :: b :: r) ≠ "" := by simpa using hj
      constructor
      · intro h
        have : (String.intercalate ", " (a :: b :: r).dropLast ++ " and " ++ (a :: b :: r).getLast!).length = 0 := by
          rw [h]; rfl
        simp only [String.length_append] at this
        have h5 : (" and " : String).length = 5 := by decide
        omega
      · intro h; exact absurd h hne

/-- closing an emptied scope contributes nothing: the enclosing scope goes on as it was -/
theorem scope_collapse_is_local (env : Env) (top parent : Frame) (rest : List Frame) (h : top.dead = true) :
    step env (top :: parent :: rest) .closeScope = .ok (parent :: rest) := by
  simp only [step, h, if_true, String.append_empty]
  split <;> rfl

/-- and a scope that is not emptied contributes exactly what it produced -/
theorem scope_contributes (env : Env) (top parent : Frame) (rest : List Frame) (h : top.dead = false)
    (hp : parent.dead = false) :
    step env (top :: parent :: rest) .closeScope = .ok ({ parent with acc := parent.acc ++ top.acc } :: rest) := by
  simp [step, h, hp]

/-! ### Non-vacuity -/

def exType : EType := { props := [("s", "string:0:mc:u"), ("b", "boolean"), ("d1", "datetime")], attachments := ["a"] }
def exEnv : Env :=
  { shown := fun p => if p == "s" then ["alpha"] else [], raw := fun p => if p == "s" then ["alpha"] else [],
    atts := fun _ => [], renderDate := fun _ _ => some "d", renderSpan := fun _ _ => some "s", renderDuration := fun _ _ => some "u" }

example : validate exType [.run [.text "Seen ", .ph none ["s"]], .openScope, .run [.text " at ", .ph (some "date_time") ["d1", "year"]],
    .closeScope, .run [.text "."]] = true := by decide +kernel
example : (match evaluate exEnv [.run [.text "Seen ", .ph none ["s"]], .openScope, .run [.text " at ", .ph (some "date_time") ["d1", "year"]],
    .closeScope, .run [.text "."]] with | .ok s => s == "Seen alpha." | _ => false) = true := by decide +kernel
example : validate exType [.run [.ph (some "url") ["s"]]] = false := by decide +kernel
example : validateStr exType "Seen [[s]]{ at [[date_time:d1,year]]}." = true := by decide +kernel
example : tokenize "a[[[s]]]{x}" = [.run [.text "a", .ph none ["[s"], .text "]"], .openScope, .run [.text "x"], .closeScope, .run []] := by
  decide +kernel
example : validateStr exType "[[empty:s,x{[[boolean_on_off:s]]}" = false := by decide +kernel

end EdxmlProps.C16
