/-
C12 — Ontology change tracking never misses a change.
-/
import EdxmlModel
import EdxmlModel.Ontology.Owner
namespace EdxmlProps.C12
open Edxml.Track

/-- **Soundness of one mutator call**: any mutator other than `clear()` that changes what the
ontology serializes to strictly increases the change counter. -/
theorem counter_sound_step (s : OntState) (k : MutKind) (st : Store) (hk : k ≠ .clear)
    (hch : (step s k st).store ≠ s.store) : (step s k st).version > s.version := by
  cases k with
  | clear => exact absurd rfl hk
  | always => simp [step]
  | set =>
    simp only [step] at hch ⊢
    split
    · rename_i h; rw [if_pos h] at hch; exact absurd rfl hch
    · simp

/-- The counter never decreases (without `clear()`). -/
theorem counter_monotone_step (s : OntState) (k : MutKind) (st : Store) (hk : k ≠ .clear) :
    s.version ≤ (step s k st).version := by
  cases k with
  | clear => exact absurd rfl hk
  | always => simp [step]
  | set => simp only [step]; split <;> simp

theorem counter_monotone (ops : List (MutKind × Store)) (hk : ∀ op ∈ ops, op.1 ≠ .clear) (s : OntState) :
    s.version ≤ (run s ops).version := by
  induction ops generalizing s with
  | nil => exact Nat.le_refl _
  | cons op ops ih =>
    have h1 := counter_monotone_step s op.1 op.2 (hk op (by simp))
    have h2 := ih (fun o ho => hk o (List.mem_cons_of_mem _ ho)) (step s op.1 op.2)
    simp only [run, List.foldl_cons] at h2 ⊢
    exact Nat.le_trans h1 h2

/-- **Soundness over histories**: take any history of mutator calls without `clear()`. If some
call in it changed the serialization, then `is_modified_since(v)` holds at the end for every
counter value `v` observed before that call. -/
theorem counter_sound (before after : List (MutKind × Store)) (op : MutKind × Store) (s : OntState)
    (hk : ∀ o ∈ op :: after, o.1 ≠ .clear)
    (hch : (step (run s before) op.1 op.2).store ≠ (run s before).store)
    (v : Nat) (hv : v ≤ (run s before).version) :
    modifiedSince (run s (before ++ op :: after)) v = true := by
  have e : run s (before ++ op :: after) = run (step (run s before) op.1 op.2) after := by
    simp [run, List.foldl_append]
  rw [e]
  have h1 := counter_sound_step (run s before) op.1 op.2 (hk op (by simp)) hch
  have h2 := counter_monotone after (fun o ho => hk o (List.mem_cons_of_mem _ ho)) (step (run s before) op.1 op.2)
  simp only [modifiedSince, decide_eq_true_eq]
  omega

/-! ### who is told about a change: the references from an element to what contains it -/

section owner
open Edxml.Owner

/-- what an ontology holds, at any depth -/
inductive Reach (h : Heap) (o : Nat) : Nat → Prop
  | root : Reach h o o
  | step {y x : Nat} : Reach h o y → x ∈ h.children y → Reach h o x

/-- the references are sound for ontology `o`: it is an ontology, and everything it holds, at any
depth, refers back to the object that holds it -/
structure Owned (h : Heap) (o : Nat) : Prop where
  top : h.owner o = none
  back : ∀ y x, Reach h o y → x ∈ h.children y → h.owner x = some y

/-- **C12: a change at any nesting depth reaches the counter of the ontology that holds the element**:
when the references are sound, the notification walk from any element the ontology holds ends at that
ontology (given fuel for the depth of the element) -/
theorem notified_reaches_root (h : Heap) (o : Nat) (ho : Owned h o) (x : Nat) (hx : Reach h o x) :
    ∃ d, ∀ fuel, d ≤ fuel → notified h fuel x = o := by
  induction hx with
  | root =>
    refine ⟨0, fun fuel _ => ?_⟩
    cases fuel with
    | zero => rfl
    | succ n => simp [notified, ho.top]
  | step hy hmem ih =>
    rename_i y x
    obtain ⟨d, hd⟩ := ih
    refine ⟨d + 1, fun fuel hf => ?_⟩
    cases fuel with
    | zero => omega
    | succ n =>
      simp only [notified, ho.back y x hy hmem]
      exact hd n (by omega)

theorem reach_attach {h : Heap} {o y x z : Nat} (hz : Reach (attach h y x) o z) (hfresh : h.children x = []) :
    Reach h o z ∨ z = x := by
  induction hz with
  | root => exact Or.inl Reach.root
  | step hy hmem ih =>
    rename_i a b
    rcases ih with ih | ih
    · simp only [attach] at hmem
      split at hmem
      · rename_i hay
        rcases List.mem_cons.mp hmem with hb | hb
        · exact Or.inr hb
        · exact Or.inl (Reach.step ih (hay ▸ hb))
      · exact Or.inl (Reach.step ih hmem)
    · subst ih
      simp only [attach] at hmem
      split at hmem
      · rename_i hay
        rcases List.mem_cons.mp hmem with hb | hb
        · exact Or.inr hb
        · rw [hfresh] at hb; cases hb
      · rw [hfresh] at hmem; cases hmem

/-- creating a definition in a container, or adopting one with its reference re-pointed, keeps the
references sound (the definition is new to the ontology, holds nothing yet, and is not the ontology) -/
theorem attach_owned (h : Heap) (o y x : Nat) (ho : Owned h o) (hy : Reach h o y) (hxo : x ≠ o)
    (hnew : ¬ Reach h o x) (hfresh : h.children x = []) : Owned (attach h y x) o := by
  constructor
  · simp only [attach]
    rw [if_neg (fun e => hxo e.symm)]
    exact ho.top
  · intro a b ha hb
    rcases reach_attach ha hfresh with ha' | ha'
    · simp only [attach] at hb ⊢
      split at hb
      · rename_i hay
        rcases List.mem_cons.mp hb with hbx | hbx
        · rw [hbx, if_pos rfl, hay]
        · have hbne : b ≠ x := fun e => hnew (e ▸ Reach.step ha' (hay ▸ hbx))
          rw [if_neg hbne]
          exact ho.back a b ha' (hay ▸ hbx)
      · have hbne : b ≠ x := fun e => hnew (e ▸ Reach.step ha' hb)
        rw [if_neg hbne]
        exact ho.back a b ha' hb
    · subst ha'
      simp only [attach] at hb
      split at hb
      · rename_i hay
        rcases List.mem_cons.mp hb with hbx | hbx
        · -- x = y would make x reachable before
          exact absurd (hay ▸ hy) hnew
        · rw [hfresh] at hbx; cases hbx
      · rw [hfresh] at hb; cases hb

/-- adopting a definition by reference WITHOUT re-pointing it breaks the invariant: its changes are
reported to where it came from (the defects repaired by a8e4706 and cef2148, and what the ownership
audit of the correspondence check looks for) -/
theorem attachStale_breaks :
    let h : Heap := { owner := fun k => if k = 5 then some 9 else none, children := fun _ => [] }
    let h' := attachStale h 0 5
    5 ∈ h'.children 0 ∧ notified h' 3 5 = 9 ∧ ¬ Owned h' 0 := by
  refine ⟨by simp [attachStale], by simp [notified, attachStale], ?_⟩
  intro ho
  have := ho.back 0 5 Reach.root (by simp [attachStale])
  simp [attachStale] at this

/-- the executable audit agrees with the invariant on the edges it is given -/
theorem ownedB_iff (h : Heap) (edges : List (Nat × Nat)) :
    ownedB h edges = true ↔ ∀ e ∈ edges, h.owner e.2 = some e.1 := by
  simp [ownedB, List.all_eq_true]

end owner

/-- Invariant of a counter-keyed consumer: what it holds was derived at the counter value it
remembers, and the counter has not moved past the ontology's since without a change. -/
def ConsumerOk (c : Consumer) (s : OntState) : Prop :=
  match c.seen with
  | none => True
  | some (v, st) => v ≤ s.version ∧ (v = s.version → st = s.store)

theorem consumer_ok_step (c : Consumer) (s : OntState) (k : MutKind) (st : Store) (hk : k ≠ .clear)
    (h : ConsumerOk c s) : ConsumerOk c (step s k st) := by
  unfold ConsumerOk at *
  cases hs : c.seen with
  | none => trivial
  | some p =>
    obtain ⟨v, cached⟩ := p
    rw [hs] at h
    simp only at h ⊢
    have hm := counter_monotone_step s k st hk
    refine ⟨Nat.le_trans h.1 hm, ?_⟩
    intro hv
    have hveq : v = s.version := by omega
    have hsame : (step s k st).store = s.store := by
      apply Classical.byContradiction
      intro hne
      have := counter_sound_step s k st hk hne
      omega
    rw [hsame]; exact h.2 hveq

theorem consumer_ok_view (c : Consumer) (s : OntState) (h : ConsumerOk c s) :
    (c.view s).1 = s.store ∧ ConsumerOk (c.view s).2 s := by
  unfold Consumer.view ConsumerOk at *
  cases hs : c.seen with
  | none => simp
  | some p =>
    obtain ⟨v, cached⟩ := p
    rw [hs] at h
    simp only at h ⊢
    by_cases hm : modifiedSince s v = true
    · simp [hm]
    · simp only [hm, Bool.false_eq_true, if_false]
      have : v = s.version := by
        simp only [modifiedSince, decide_eq_true_eq] at hm; omega
      exact ⟨h.2 this, by rw [hs]; exact h⟩

/-- **Consumers never act on a stale ontology**: interleave any mutator calls (no `clear()`) with
look-ups of a counter-keyed consumer (event validator schema cache, mediator ontology output);
every look-up sees the ontology as it is at that moment. -/
theorem consumer_never_stale : ∀ (ops : List (Option (MutKind × Store))) (c : Consumer) (s : OntState),
    (∀ o ∈ ops, ∀ m, o = some m → m.1 ≠ .clear) → ConsumerOk c s →
    let final := ops.foldl (fun (cs : Consumer × OntState) o =>
      match o with
      | some m => (cs.1, step cs.2 m.1 m.2)
      | none => ((cs.1.view cs.2).2, cs.2)) (c, s)
    (final.1.view final.2).1 = final.2.store
  | [], c, s, _, h => (consumer_ok_view c s h).1
  | o :: ops, c, s, hk, h => by
    simp only [List.foldl_cons]
    cases o with
    | some m =>
      exact consumer_never_stale ops c (step s m.1 m.2) (fun o ho => hk o (List.mem_cons_of_mem _ ho))
        (consumer_ok_step c s m.1 m.2 (hk (some m) (by simp) m rfl) h)
    | none =>
      exact consumer_never_stale ops (c.view s).2 s (fun o ho => hk o (List.mem_cons_of_mem _ ho))
        (consumer_ok_view c s h).2

/-- `clear()` breaks the property (known finding, pinned by the SDK's test suite): the counter is
reset, so a later state can carry a counter value that was observed before although the
ontology differs. A counter-keyed consumer then acts on the stale ontology. -/
theorem violated_by_clear :
    ∃ (s : OntState) (ops : List (MutKind × Store)) (c : Consumer),
      ConsumerOk c s ∧ (run s ops).store ≠ s.store ∧ modifiedSince (run s ops) s.version = false ∧
      (c.view (run s ops)).1 ≠ (run s ops).store :=
  ⟨{ store := [("a", "1")], version := 1 }, [(.clear, []), (.always, [("b", "2")])],
   { seen := some (1, [("a", "1")]) }, ⟨Nat.le_refl _, fun _ => rfl⟩, by decide, by decide, by decide⟩

/-! ### Non-vacuity -/

example : ConsumerOk {} {} := trivial
example : (run {} [(.always, [("a", "1")]), (.set, [("a", "1")]), (.set, [("a", "2")])]).version = 2 := by decide

end EdxmlProps.C12
