/-
`str.split(c)` on character lists (`splitOnChar`): joining the pieces gives the string back, and
splitting what was joined gives the pieces back when no piece contains the separator.
-/
import EdxmlModel.Ontology.Cmp
namespace Edxml.Ont

theorem splitOnChar_ne_nil' (c : Char) : ∀ cs, splitOnChar c cs ≠ []
  | [] => by simp [splitOnChar]
  | x :: xs => by
    simp only [splitOnChar]
    split
    · simp
    · split <;> simp

/-- joining the pieces of `split(c)` with `c` gives the string back -/
theorem intercalate_splitOnChar' (c : Char) : ∀ cs, [c].intercalate (splitOnChar c cs) = cs
  | [] => by simp [splitOnChar]
  | x :: xs => by
    have ih := intercalate_splitOnChar' c xs
    simp only [splitOnChar]
    by_cases hx : (x == c) = true
    · have : x = c := by simpa using hx
      subst this
      simp only [beq_self_eq_true, if_true]
      rw [List.intercalate_cons_of_ne_nil (splitOnChar_ne_nil' x xs), ih]
      rfl
    · simp only [hx, Bool.false_eq_true, if_false]
      cases hs : splitOnChar c xs with
      | nil => exact absurd hs (splitOnChar_ne_nil' c xs)
      | cons h t =>
        rw [hs] at ih
        simp only [List.intercalate_cons_cons_left, ih]

theorem splitOnChar_no_sep (c : Char) : ∀ (p : List Char), (∀ x ∈ p, x ≠ c) → splitOnChar c p = [p]
  | [], _ => rfl
  | x :: xs, h => by
    have hx : (x == c) = false := by simpa using h x (by simp)
    simp only [splitOnChar, hx, Bool.false_eq_true, if_false, splitOnChar_no_sep c xs (fun y hy => h y (by simp [hy]))]

theorem splitOnChar_append_sep (c : Char) : ∀ (p rest : List Char), (∀ x ∈ p, x ≠ c) →
    splitOnChar c (p ++ c :: rest) = p :: splitOnChar c rest
  | [], rest, _ => by simp [splitOnChar]
  | x :: xs, rest, h => by
    have hx : (x == c) = false := by simpa using h x (by simp)
    simp only [List.cons_append, splitOnChar, hx, Bool.false_eq_true, if_false,
      splitOnChar_append_sep c xs rest (fun y hy => h y (by simp [hy]))]

/-- and splitting what was joined gives the pieces back, when no piece contains the separator -/
theorem splitOnChar_intercalate (c : Char) : ∀ (parts : List (List Char)), parts ≠ [] → (∀ p ∈ parts, ∀ x ∈ p, x ≠ c) →
    splitOnChar c ([c].intercalate parts) = parts
  | [], h, _ => absurd rfl h
  | [p], _, hp => by simpa using splitOnChar_no_sep c p (hp p (by simp))
  | p :: q :: r, _, hp => by
    rw [List.intercalate_cons_cons]
    have := splitOnChar_intercalate c (q :: r) (by simp) (fun p' hp' => hp p' (by simp [hp']))
    simp only [List.append_assoc, List.singleton_append]
    rw [splitOnChar_append_sep c p _ (hp p (by simp)), this]


end Edxml.Ont
