/-
Lemmas about `Ontology.__cmp__` (`EdxmlModel/Ontology/OntCmp.lean`): what the comparison of one
kind of definitions amounts to, and that it does not depend on the side it is asked from.
-/
import EdxmlModel.Ontology.OntCmp
namespace EdxmlProps.OntCmp
open Edxml Edxml.Ont

theorem findBy_some_iff {α} (key : α → String) (n : String) : ∀ (B : List α), (B.map key).Nodup → ∀ b,
    (findBy key n B = some b ↔ b ∈ B ∧ key b = n)
  | [], _, b => by simp [findBy]
  | x :: r, hn, b => by
    simp only [List.map_cons, List.nodup_cons, List.mem_map, not_exists, not_and] at hn
    unfold findBy
    by_cases hx : key x = n
    · have : (key x == n) = true := by simpa using hx
      simp only [this, if_true, Option.some.injEq, List.mem_cons]
      constructor
      · rintro rfl; exact ⟨Or.inl rfl, hx⟩
      · rintro ⟨hb | hb, hk⟩
        · exact hb.symm
        · exact absurd (hk.trans hx.symm) (fun e => hn.1 b hb e)
    · have : (key x == n) = false := by simpa using hx
      simp only [this, Bool.false_eq_true, if_false, List.mem_cons]
      rw [findBy_some_iff key n r hn.2 b]
      constructor
      · rintro ⟨hb, hk⟩; exact ⟨Or.inr hb, hk⟩
      · rintro ⟨hb | hb, hk⟩
        · subst hb; exact absurd hk hx
        · exact ⟨hb, hk⟩

theorem mem_sharedVerdicts {α} (key : α → String) (cmp : α → α → Cmp) (A B : List α) (hB : (B.map key).Nodup) (c : Cmp) :
    c ∈ sharedVerdicts key cmp A B ↔ ∃ a ∈ A, ∃ b ∈ B, key b = key a ∧ cmp b a = c := by
  unfold sharedVerdicts
  simp only [List.mem_filterMap, Option.map_eq_some_iff]
  constructor
  · rintro ⟨a, ha, b, hf, hc⟩
    obtain ⟨hb, hk⟩ := (findBy_some_iff key (key a) B hB b).mp hf
    exact ⟨a, ha, b, hb, hk, hc⟩
  · rintro ⟨a, ha, b, hb, hk, hc⟩
    exact ⟨a, ha, b, (findBy_some_iff key (key a) B hB b).mpr ⟨hb, hk⟩, hc⟩

/-- the comparison of one kind of definitions in words -/
theorem listsEq_spec {α} (key : α → String) (cmp : α → α → Cmp) (A B : List α) (hB : (B.map key).Nodup) :
    (listsEq key cmp A B = .conflict ↔ ∃ a ∈ A, ∃ b ∈ B, key b = key a ∧ cmp b a = .incompat) ∧
    (listsEq key cmp A B = .equal ↔ (¬ ∃ a ∈ A, ∃ b ∈ B, key b = key a ∧ cmp b a = .incompat) ∧
      keysEq (A.map key) (B.map key) = true ∧ ∀ a ∈ A, ∀ b ∈ B, key b = key a → cmp b a = .eq) := by
  have hc : (sharedVerdicts key cmp A B).contains .incompat = true ↔ ∃ a ∈ A, ∃ b ∈ B, key b = key a ∧ cmp b a = .incompat := by
    rw [List.contains_iff_mem]
    exact mem_sharedVerdicts key cmp A B hB .incompat
  have ha : (sharedVerdicts key cmp A B).all (· == .eq) = true ↔ ∀ a ∈ A, ∀ b ∈ B, key b = key a → cmp b a = .eq := by
    simp only [List.all_eq_true, beq_iff_eq]
    constructor
    · intro h a haA b hbB hk
      exact h _ ((mem_sharedVerdicts key cmp A B hB _).mpr ⟨a, haA, b, hbB, hk, rfl⟩)
    · intro h c hcm
      obtain ⟨a, haA, b, hbB, hk, rfl⟩ := (mem_sharedVerdicts key cmp A B hB c).mp hcm
      exact h a haA b hbB hk
  unfold listsEq
  simp only
  by_cases h1 : (sharedVerdicts key cmp A B).contains .incompat = true
  · simp only [h1, if_true, true_iff]
    exact ⟨hc.mp h1, by simp, fun h => absurd (hc.mp h1) h.1⟩
  · have h1' : (sharedVerdicts key cmp A B).contains .incompat = false := by simpa using h1
    simp only [h1', Bool.false_eq_true, if_false]
    have hnc : ¬ ∃ a ∈ A, ∃ b ∈ B, key b = key a ∧ cmp b a = .incompat := fun h => h1 (hc.mpr h)
    by_cases h2 : (keysEq (A.map key) (B.map key) && (sharedVerdicts key cmp A B).all (· == .eq)) = true
    · simp only [h2, if_true, true_iff]
      simp only [Bool.and_eq_true] at h2
      exact ⟨by simp [hnc], hnc, h2.1, ha.mp h2.2⟩
    · have h2' : (keysEq (A.map key) (B.map key) && (sharedVerdicts key cmp A B).all (· == .eq)) = false := by simpa using h2
      simp only [h2', Bool.false_eq_true, if_false]
      refine ⟨by simp [hnc], ?_⟩
      constructor
      · intro h; cases h
      · intro h
        exact absurd (by simp only [Bool.and_eq_true]; exact ⟨h.2.1, ha.mpr h.2.2⟩) h2

theorem flip_incompat (c : Cmp) : c.flip = .incompat ↔ c = .incompat := by cases c <;> simp [Cmp.flip]
theorem flip_eq (c : Cmp) : c.flip = .eq ↔ c = .eq := by cases c <;> simp [Cmp.flip]

theorem keysEq_comm (a b : List String) : keysEq a b = keysEq b a := by unfold keysEq; exact Bool.and_comm _ _

theorem ontEq_cases (x : OntEq) : x = .conflict ∨ x = .equal ∨ x = .different := by cases x <;> simp

/-- it does not matter from which side two lists of definitions are compared -/
theorem listsEq_symm {α} (key : α → String) (cmp : α → α → Cmp) (A B : List α)
    (hA : (A.map key).Nodup) (hB : (B.map key).Nodup)
    (hflip : ∀ a ∈ A, ∀ b ∈ B, cmp a b = (cmp b a).flip) : listsEq key cmp A B = listsEq key cmp B A := by
  obtain ⟨c1, e1⟩ := listsEq_spec key cmp A B hB
  obtain ⟨c2, e2⟩ := listsEq_spec key cmp B A hA
  have hconf : (∃ a ∈ A, ∃ b ∈ B, key b = key a ∧ cmp b a = .incompat) ↔ (∃ b ∈ B, ∃ a ∈ A, key a = key b ∧ cmp a b = .incompat) := by
    constructor
    · rintro ⟨a, ha, b, hb, hk, hc⟩
      exact ⟨b, hb, a, ha, hk.symm, by rw [hflip a ha b hb]; exact (flip_incompat _).mpr hc⟩
    · rintro ⟨b, hb, a, ha, hk, hc⟩
      refine ⟨a, ha, b, hb, hk.symm, ?_⟩
      rw [hflip a ha b hb] at hc
      exact (flip_incompat _).mp hc
  have halleq : (∀ a ∈ A, ∀ b ∈ B, key b = key a → cmp b a = .eq) ↔ (∀ b ∈ B, ∀ a ∈ A, key a = key b → cmp a b = .eq) := by
    constructor
    · intro h b hb a ha hk
      rw [hflip a ha b hb]
      exact (flip_eq _).mpr (h a ha b hb hk.symm)
    · intro h a ha b hb hk
      have := h b hb a ha hk.symm
      rw [hflip a ha b hb] at this
      exact (flip_eq _).mp this
  rcases ontEq_cases (listsEq key cmp A B) with h | h | h
  · rw [h]; exact (c2.mpr (hconf.mp (c1.mp h))).symm
  · rw [h]
    obtain ⟨n, k, a⟩ := e1.mp h
    exact (e2.mpr ⟨fun x => n (hconf.mpr x), by rw [keysEq_comm]; exact k, halleq.mp a⟩).symm
  · rcases ontEq_cases (listsEq key cmp B A) with g | g | g
    · exact absurd (c1.mpr (hconf.mpr (c2.mp g))) (by rw [h]; simp)
    · obtain ⟨n, k, a⟩ := e2.mp g
      exact absurd (e1.mpr ⟨fun x => n (hconf.mp x), by rw [keysEq_comm]; exact k, halleq.mpr a⟩) (by rw [h]; simp)
    · rw [h, g]

end EdxmlProps.OntCmp
