/-
Lemmas about the parser state machine.
-/
import EdxmlModel.Stream.Parser
namespace Edxml

theorem prun_append (reg : Registry) : ∀ (a b : List Item) (s : PState),
    prun reg s (a ++ b) = match prun reg s a with
      | (s', none) => prun reg s' b
      | r => r
  | [], b, s => rfl
  | it :: a, b, s => by
    simp only [List.cons_append, prun]
    cases h : pstep reg s it with
    | mk s' e =>
      cases e with
      | none => simp only; exact prun_append reg a b s'
      | some err => rfl

theorem feedAll_eq_prun (reg : Registry) : ∀ (cs : List (List Item)) (s : PState),
    feedAll reg s cs = prun reg s cs.flatten
  | [], s => rfl
  | c :: cs, s => by
    simp only [feedAll, List.flatten_cons, prun_append]
    cases h : prun reg s c with
    | mk s' e =>
      cases e with
      | none => simp only; exact feedAll_eq_prun reg cs s'
      | some err => rfl

/-! ### lookups -/

theorem lookupD_setDefault (k k' : String) (l : List (String × Nat)) :
    lookupD k 0 (setDefault k' 0 l) = lookupD k 0 l := by
  induction l with
  | nil =>
    simp only [setDefault, lookupD]
    split <;> rfl
  | cons p r ih =>
    obtain ⟨a, w⟩ := p
    simp only [setDefault]
    by_cases h : (a == k') = true
    · simp only [h, if_true]
    · simp only [h, Bool.false_eq_true, if_false, lookupD, ih]

theorem lookupD_foldl_setDefault (k : String) (ts : List String) (l : List (String × Nat)) :
    lookupD k 0 (ts.foldl (fun tc t => setDefault t 0 tc) l) = lookupD k 0 l := by
  induction ts generalizing l with
  | nil => rfl
  | cons t ts ih => simp only [List.foldl_cons]; rw [ih, lookupD_setDefault]

theorem lookupD_increment (k k' : String) (l : List (String × Nat)) :
    lookupD k 0 (increment k' l) = lookupD k 0 l + (if k' == k then 1 else 0) := by
  induction l with
  | nil =>
    simp only [increment, lookupD]
    split <;> simp
  | cons p r ih =>
    obtain ⟨a, w⟩ := p
    simp only [increment]
    by_cases h : (a == k') = true
    · have hak : a = k' := by simpa using h
      subst hak
      simp only [beq_self_eq_true, if_true, lookupD]
      by_cases h2 : (a == k) = true
      · simp only [h2, if_true]
      · simp only [h2, Bool.false_eq_true, if_false]; omega
    · simp only [h, Bool.false_eq_true, if_false, lookupD]
      by_cases h2 : (a == k) = true
      · have hak : a = k := by simpa using h2
        subst hak
        simp only [beq_self_eq_true, if_true]
        have : (k' == a) = false := by
          apply beq_eq_false_iff_ne.mpr
          intro e; subst e; simp at h
        simp [this]
      · simp only [h2, Bool.false_eq_true, if_false]; exact ih

theorem lookupD_map_key {β} (f : String → β) (d : β) (k : String) :
    ∀ (l : List (String × List Nat)), (∃ ph ∈ l, ph.1 = k) →
      lookupD k d (l.map fun ph => (ph.1, f ph.1)) = f k
  | [], h => by obtain ⟨_, hm, _⟩ := h; cases hm
  | q :: r, h => by
    simp only [List.map_cons, lookupD]
    by_cases hq : (q.1 == k) = true
    · have : q.1 = k := by simpa using hq
      simp [this]
    · simp only [hq, Bool.false_eq_true, if_false]
      apply lookupD_map_key f d k r
      obtain ⟨ph, hm, hk⟩ := h
      rcases List.mem_cons.mp hm with rfl | h'
      · rw [hk] at hq; simp at hq
      · exact ⟨ph, h', hk⟩

/-- The pattern map entry of a registered pattern: the defined sources the pattern matches. -/
theorem lookupD_buildPatMap (reg : Registry) (ss : List String) (ph : String × List Nat)
    (h : ph ∈ reg.srcH) :
    lookupD ph.1 [] (buildPatMap reg ss) = ss.filter fun uri => reg.reMatch.contains (ph.1, uri) := by
  unfold buildPatMap
  exact lookupD_map_key (fun k => ss.filter fun uri => reg.reMatch.contains (k, uri)) [] ph.1 reg.srcH ⟨ph, h, rfl⟩

theorem flatMap_congr' {α β} {f g : α → List β} : ∀ (l : List α), (∀ x ∈ l, f x = g x) →
    l.flatMap f = l.flatMap g
  | [], _ => rfl
  | x :: xs, h => by
    simp only [List.flatMap_cons]
    rw [h x (by simp), flatMap_congr' xs (fun y hy => h y (List.mem_cons_of_mem _ hy))]

/-- The handlers the documentation promises: those registered for the event type, then those of
every registered source pattern that matches the source URI, patterns in registration order. -/
def expectedHandlers (reg : Registry) (type source : String) : List Nat :=
  lookupD type [] reg.typeH ++
    reg.srcH.flatMap fun ph => if reg.reMatch.contains (ph.1, source) then ph.2 else []

theorem handlersFor_buildPatMap (reg : Registry) (ss : List String) (type source : String)
    (hs : source ∈ ss) :
    handlersFor reg (buildPatMap reg ss) type source = expectedHandlers reg type source := by
  unfold handlersFor expectedHandlers
  congr 1
  apply flatMap_congr'
  intro ph hph
  rw [lookupD_buildPatMap reg ss ph hph]
  have : (List.filter (fun uri => reg.reMatch.contains (ph.1, uri)) ss).contains source
      = reg.reMatch.contains (ph.1, source) := by
    rw [Bool.eq_iff_iff]
    simp only [List.contains_iff_mem, List.mem_filter]
    constructor
    · exact fun h => h.2
    · exact fun h => ⟨hs, h⟩
  rw [this]

end Edxml
