/-
Monotonicity of the event gate: a gate generated from definitions that admit at least as much
keeps accepting (used by C10).
-/
import EdxmlProps.C03
namespace Edxml.Gate
open Edxml

/-- `g'` admits at least what `g` admits: every property of `g` is still there, at least as
optional and as multi-valued, with a value space that did not shrink; added properties are
optional; attachments are still there with the same encoding. -/
structure GUp (g g' : GEventType) (info info' : String → String → StrInfo) : Prop where
  nodup : (g.props.map (·.name)).Nodup
  nodup' : (g'.props.map (·.name)).Nodup
  props : ∀ p ∈ g.props, ∃ p' ∈ g'.props, p'.name = p.name ∧ (p.optional = true → p'.optional = true) ∧
    (p.multivalued = true → p'.multivalued = true) ∧
    ∀ v, accepts p.dataType (info p.name v) v = true → accepts p'.dataType (info' p.name v) v = true
  added : ∀ p' ∈ g'.props, (∃ p ∈ g.props, p.name = p'.name) ∨ p'.optional = true
  anodup : (g.attachments.map (·.name)).Nodup
  anodup' : (g'.attachments.map (·.name)).Nodup
  atts : ∀ a ∈ g.attachments, ∃ a' ∈ g'.attachments, a'.name = a.name ∧ a'.base64 = a.base64

theorem find?_name_of_mem {l : List GProp} (hn : (l.map (·.name)).Nodup) {p : GProp} (hp : p ∈ l) :
    l.find? (·.name == p.name) = some p := by
  induction l with
  | nil => cases hp
  | cons a l ih =>
    simp only [List.map_cons, List.nodup_cons, List.mem_map, not_exists, not_and] at hn
    rw [List.find?_cons]
    rcases List.mem_cons.mp hp with rfl | hm
    · simp
    · have : (a.name == p.name) = false := by
        rw [beq_eq_false_iff_ne]; intro e; exact hn.1 p hm e.symm
      rw [this]; exact ih hn.2 hm

theorem find?_name_none {l : List GProp} {n : String} (h : ∀ p ∈ l, p.name ≠ n) :
    l.find? (·.name == n) = none := by
  rw [List.find?_eq_none]
  intro p hp; simpa using h p hp

theorem find?_att_of_mem {l : List GAttachment} (hn : (l.map (·.name)).Nodup) {p : GAttachment} (hp : p ∈ l) :
    l.find? (·.name == p.name) = some p := by
  induction l with
  | nil => cases hp
  | cons a l ih =>
    simp only [List.map_cons, List.nodup_cons, List.mem_map, not_exists, not_and] at hn
    rw [List.find?_cons]
    rcases List.mem_cons.mp hp with rfl | hm
    · simp
    · have : (a.name == p.name) = false := by
        rw [beq_eq_false_iff_ne]; intro e; exact hn.1 p hm e.symm
      rw [this]; exact ih hn.2 hm

/-- an event that only mentions declared properties has no object for an undeclared one -/
theorem objects_nil_of_undeclared (g : GEventType) (info : String → String → StrInfo) (e : Event)
    (h : ∀ pv ∈ e.props, propOk g info pv = true) (n : String) (hn : ∀ p ∈ g.props, p.name ≠ n) :
    e.objects n = [] := by
  unfold Event.objects
  have : e.pairs.filter (·.1 == n) = [] := by
    rw [List.filter_eq_nil_iff]
    intro pr hpr
    unfold Event.pairs at hpr
    simp only [List.mem_flatMap, List.mem_map] at hpr
    obtain ⟨pv, hpv, v, hv, rfl⟩ := hpr
    simp only [beq_iff_eq]
    intro e1
    have hok := h pv hpv
    unfold propOk at hok
    rw [e1, find?_name_none hn] at hok
    simp only [List.isEmpty_iff] at hok
    rw [hok] at hv; cases hv
  rw [this]; rfl

/-- C10 at the level of the gate: a gate that admits at least as much keeps accepting. -/
theorem gate_mono (g g' : GEventType) (info info' : String → String → StrInfo) (up : GUp g g' info info')
    (e : Event) (h : gate g info e = true) : gate g' info' e = true := by
  rw [EdxmlProps.C03.gate_iff] at h ⊢
  obtain ⟨h1, h2, h3, h4, h5, h6, h7⟩ := h
  refine ⟨h1, h2, h3, ?_, ?_, ?_, h7⟩
  · intro pv hpv
    have hok := h4 pv hpv
    unfold propOk at hok ⊢
    cases hf : g.props.find? (·.name == pv.1) with
    | none =>
      rw [hf] at hok
      simp only [List.isEmpty_iff] at hok
      rw [hok]
      cases g'.props.find? (·.name == pv.1) <;> simp
    | some p =>
      rw [hf] at hok
      have hpm := List.mem_of_find?_eq_some hf
      have hpn : p.name = pv.1 := by simpa using List.find?_some hf
      obtain ⟨p', hp', hn', _, _, hacc⟩ := up.props p hpm
      have : g'.props.find? (·.name == pv.1) = some p' := by
        rw [← hpn, ← hn']; exact find?_name_of_mem up.nodup' hp'
      rw [this]
      simp only [List.all_eq_true] at hok ⊢
      intro v hv
      have := hacc v (by rw [hpn]; exact hok v hv)
      rw [hpn] at this; exact this
  · intro p' hp'
    rcases up.added p' hp' with ⟨p, hp, hn⟩ | hopt
    · obtain ⟨p'', hp'', hn'', ho, hm, _⟩ := up.props p hp
      have : p'' = p' := by
        have e1 : p''.name = p'.name := hn''.trans hn
        have f1 := find?_name_of_mem up.nodup' hp''
        have f2 := find?_name_of_mem up.nodup' hp'
        rw [e1] at f1; rw [f1] at f2; exact Option.some.inj f2
      subst this
      have hc := h5 p hp
      unfold cardOk at hc ⊢
      rw [← hn]
      simp only [Bool.and_eq_true, Bool.or_eq_true, decide_eq_true_eq] at hc ⊢
      exact ⟨hc.1.imp ho id, hc.2.imp hm id⟩
    · have hnone : ∀ p ∈ g.props, p.name ≠ p'.name ∨ True := fun _ _ => Or.inr trivial
      by_cases hex : ∃ p ∈ g.props, p.name = p'.name
      · obtain ⟨p, hp, hn⟩ := hex
        obtain ⟨p'', hp'', hn'', ho, hm, _⟩ := up.props p hp
        have : p'' = p' := by
          have e1 : p''.name = p'.name := hn''.trans hn
          have f1 := find?_name_of_mem up.nodup' hp''
          have f2 := find?_name_of_mem up.nodup' hp'
          rw [e1] at f1; rw [f1] at f2; exact Option.some.inj f2
        subst this
        have hc := h5 p hp
        unfold cardOk at hc ⊢
        rw [← hn]
        simp only [Bool.and_eq_true, Bool.or_eq_true, decide_eq_true_eq] at hc ⊢
        exact ⟨hc.1.imp ho id, hc.2.imp hm id⟩
      · have hnil := objects_nil_of_undeclared g info e h4 p'.name (fun p hp e1 => hex ⟨p, hp, e1⟩)
        unfold cardOk
        simp [hnil, hopt]
  · intro a ha
    have hok := h6 a ha
    unfold attOk at hok ⊢
    cases hf : g.attachments.find? (·.name == a.1) with
    | none =>
      rw [hf] at hok
      simp only [List.isEmpty_iff] at hok
      rw [hok]
      cases g'.attachments.find? (·.name == a.1) <;> simp
    | some d =>
      rw [hf] at hok
      have hdm := List.mem_of_find?_eq_some hf
      have hdn : d.name = a.1 := by simpa using List.find?_some hf
      obtain ⟨d', hd', hn', hb⟩ := up.atts d hdm
      have : g'.attachments.find? (·.name == a.1) = some d' := by
        rw [← hdn, ← hn']; exact find?_att_of_mem up.anodup' hd'
      rw [this]; simp only [hb]; exact hok

end Edxml.Gate
