/-
The proleptic Gregorian calendar of the datetime model (`daysFromCivil`, `civilFromDays`): the two
conversions are inverse to each other. The year-of-era formula is checked by the kernel for each of
the 146097 days of a 400 year era (`eraCheck_all`, a `decide +kernel` over the whole table, no axiom)
and lifted to all days by the era decomposition.
-/
import EdxmlModel.DataType.Normalize
namespace Edxml.Norm

/-! ### the proleptic Gregorian calendar: days ↔ dates -/

/-- what is checked for every day of a 400 year era: the year-of-era formula of `civilFromDays`
finds the year whose days contain the day -/
def eraCheck (n : Nat) : Bool :=
  let yoe := (n - n / 1460 + n / 36524 - n / 146096) / 365
  let base := 365 * yoe + yoe / 4 - yoe / 100
  Nat.ble base n && Nat.ble (n - base) 365 && Nat.ble yoe 399 &&
    (Nat.ble (n - base) 364 || ((yoe + 1) % 4 == 0 && ((yoe + 1) % 100 != 0 || yoe == 399)))

def allBelow (f : Nat → Bool) : Nat → Bool
  | 0 => true
  | n + 1 => f n && allBelow f n

theorem allBelow_spec (f : Nat → Bool) : ∀ n, allBelow f n = true → ∀ k, k < n → f k = true
  | 0, _, k, hk => by omega
  | n + 1, h, k, hk => by
    simp only [allBelow, Bool.and_eq_true] at h
    by_cases hkn : k = n
    · subst hkn; exact h.1
    · exact allBelow_spec f n h.2 k (by omega)

/-- all 146097 days of an era, evaluated by the kernel -/
theorem eraCheck_all : allBelow eraCheck 146097 = true := by decide +kernel

theorem era_facts (n : Nat) (hn : n < 146097) :
    let yoe := (n - n / 1460 + n / 36524 - n / 146096) / 365
    let base := 365 * yoe + yoe / 4 - yoe / 100
    base ≤ n ∧ n - base ≤ 365 ∧ yoe ≤ 399 ∧
      (n - base ≤ 364 ∨ ((yoe + 1) % 4 = 0 ∧ ((yoe + 1) % 100 ≠ 0 ∨ yoe = 399))) := by
  have h := allBelow_spec eraCheck 146097 eraCheck_all n hn
  simp only [eraCheck, Bool.and_eq_true, Bool.or_eq_true, Nat.ble_eq, beq_iff_eq, bne_iff_ne] at h
  obtain ⟨⟨⟨h1, h2⟩, h3⟩, h4⟩ := h
  exact ⟨h1, h2, h3, h4⟩

theorem year_back (M Y : Int) : (if M ≤ 2 then (if M ≤ 2 then Y + 1 else Y) - 1 else if M ≤ 2 then Y + 1 else Y) = Y := by
  split <;> simp [*]

/-- days → date → days, for every day from 0000-03-01 on -/
theorem daysFromCivil_civilFromDays (z : Int) (hz : -719468 ≤ z) :
    daysFromCivil (civilFromDays z).1 (civilFromDays z).2.1 (civilFromDays z).2.2 = z := by
  simp only [civilFromDays, daysFromCivil]
  have h0 : z + 719468 ≥ 0 := by omega
  simp only [h0, if_true]
  generalize hE : (z + 719468) / 146097 = era
  generalize hD : z + 719468 - era * 146097 = doe
  have hdoe : 0 ≤ doe ∧ doe ≤ 146096 := by omega
  have hera : 0 ≤ era := by omega
  obtain ⟨n, rfl⟩ : ∃ n : Nat, doe = (n : Int) := ⟨doe.toNat, by omega⟩
  have hf := era_facts n (by omega)
  simp only at hf
  generalize hY : ((n : Int) - (n : Int) / 1460 + (n : Int) / 36524 - (n : Int) / 146096) / 365 = yoe
  have hyn : yoe = (((n - n / 1460 + n / 36524 - n / 146096) / 365 : Nat) : Int) := by omega
  generalize hYn : (n - n / 1460 + n / 36524 - n / 146096) / 365 = yn at hf hyn
  subst hyn
  generalize hO : (n : Int) - (365 * (yn : Int) + (yn : Int) / 4 - (yn : Int) / 100) = doy
  generalize hM : (5 * doy + 2) / 153 = mp
  simp only [year_back]
  have hdoy : 0 ≤ doy ∧ doy ≤ 365 := by omega
  have hmp : 0 ≤ mp ∧ mp ≤ 11 := by omega
  have hy0 : (yn : Int) + era * 400 ≥ 0 := by omega
  simp only [hy0, if_true]
  have hq : ((yn : Int) + era * 400) / 400 = era := by omega
  rw [hq]
  have hm : ((if mp < 10 then mp + 3 else mp - 9) + 9) % 12 = mp := by split <;> omega
  rw [hm]
  have hsub : (yn : Int) + era * 400 - era * 400 = yn := by omega
  rw [hsub]
  omega


/-- the date fields `civilFromDays` yields are a month and a day of the month -/
theorem civilFromDays_range (z : Int) (hz : -719468 ≤ z) :
    0 ≤ (civilFromDays z).1 ∧ 1 ≤ (civilFromDays z).2.1 ∧ (civilFromDays z).2.1 ≤ 12 ∧
      1 ≤ (civilFromDays z).2.2 ∧ (civilFromDays z).2.2 ≤ 31 := by
  simp only [civilFromDays]
  have h0 : z + 719468 ≥ 0 := by omega
  simp only [h0, if_true]
  generalize hE : (z + 719468) / 146097 = era
  generalize hD : z + 719468 - era * 146097 = doe
  have hdoe : 0 ≤ doe ∧ doe ≤ 146096 := by omega
  have hera : 0 ≤ era := by omega
  obtain ⟨n, rfl⟩ : ∃ n : Nat, doe = (n : Int) := ⟨doe.toNat, by omega⟩
  have hf := era_facts n (by omega)
  simp only at hf
  generalize hY : ((n : Int) - (n : Int) / 1460 + (n : Int) / 36524 - (n : Int) / 146096) / 365 = yoe
  have hyn : yoe = (((n - n / 1460 + n / 36524 - n / 146096) / 365 : Nat) : Int) := by omega
  generalize hYn : (n - n / 1460 + n / 36524 - n / 146096) / 365 = yn at hf hyn
  subst hyn
  generalize hO : (n : Int) - (365 * (yn : Int) + (yn : Int) / 4 - (yn : Int) / 100) = doy
  generalize hM : (5 * doy + 2) / 153 = mp
  have hdoy : 0 ≤ doy ∧ doy ≤ 365 := by omega
  have hmp : 0 ≤ mp ∧ mp ≤ 11 := by omega
  refine ⟨?_, ?_, ?_, ?_, ?_⟩
  · split <;> omega
  · split <;> omega
  · split <;> omega
  · omega
  · omega

/-- before 0000-03-01 the year that comes out is far below 1000 (such dates are not normalised) -/
theorem civilFromDays_early (z : Int) (hz : z < -719468) : (civilFromDays z).1 < 1000 := by
  simp only [civilFromDays]
  have h0 : ¬ (z + 719468 ≥ 0) := by omega
  simp only [h0, if_false]
  generalize hE : (z + 719468 - 146096) / 146097 = era
  generalize hD : z + 719468 - era * 146097 = doe
  have hera : era ≤ -1 := by omega
  have hdoe : 0 ≤ doe ∧ doe ≤ 292193 := by omega
  generalize hY : (doe - doe / 1460 + doe / 36524 - doe / 146096) / 365 = yoe
  have hyoe : yoe ≤ 810 := by omega
  split <;> omega

theorem g_mono (a b : Int) (_h0 : 0 ≤ a) (hab : a ≤ b) : 365 * a + a / 4 - a / 100 ≤ 365 * b + b / 4 - b / 100 := by
  omega

/-- the length of the year (March to February) that follows year-of-era `a` -/
theorem g_step (a : Int) (h0 : 0 ≤ a) :
    (365 * (a + 1) + (a + 1) / 4 - (a + 1) / 100) - (365 * a + a / 4 - a / 100) =
      if (a + 1) % 4 = 0 ∧ (a + 1) % 100 ≠ 0 then 366 else 365 := by
  by_cases c4 : (a + 1) % 4 = 0 <;> by_cases c100 : (a + 1) % 100 = 0
  · have e4 : (a + 1) / 4 = a / 4 + 1 := by omega
    have e100 : (a + 1) / 100 = a / 100 + 1 := by omega
    rw [if_neg (by intro h; exact h.2 c100)]; omega
  · have e4 : (a + 1) / 4 = a / 4 + 1 := by omega
    have e100 : (a + 1) / 100 = a / 100 := by omega
    rw [if_pos ⟨c4, c100⟩]; omega
  · omega
  · have e4 : (a + 1) / 4 = a / 4 := by omega
    have e100 : (a + 1) / 100 = a / 100 := by omega
    rw [if_neg (by intro h; exact c4 h.1)]; omega

theorem uniq (n yn yoe doyv : Int) (h0 : 0 ≤ yn) (h1 : 0 ≤ yoe) (hyn : yn ≤ 399) (hyo : yoe ≤ 399)
    (a1 : 365 * yn + yn / 4 - yn / 100 ≤ n)
    (a2 : n - (365 * yn + yn / 4 - yn / 100) ≤ 364 ∨ ((yn + 1) % 4 = 0 ∧ ((yn + 1) % 100 ≠ 0 ∨ yn = 399)))
    (a3 : n - (365 * yn + yn / 4 - yn / 100) ≤ 365)
    (b1 : yoe * 365 + yoe / 4 - yoe / 100 + doyv = n) (b0 : 0 ≤ doyv)
    (b2 : doyv ≤ 364 ∨ (doyv = 365 ∧ (yoe + 1) % 4 = 0 ∧ ((yoe + 1) % 100 ≠ 0 ∨ yoe = 399))) : yn = yoe := by
  rcases Int.lt_trichotomy yn yoe with h | h | h
  · have hm := g_mono (yn + 1) yoe (by omega) (by omega)
    have hs := g_step yn h0
    split at hs <;> omega
  · exact h
  · have hm := g_mono (yoe + 1) yn (by omega) (by omega)
    have hs := g_step yoe h1
    split at hs <;> omega

def leapYear (y : Int) : Bool := y % 4 == 0 && (y % 100 != 0 || y % 400 == 0)

def daysInMonth (y m : Int) : Int :=
  if m = 2 then (if leapYear y then 29 else 28)
  else if m = 4 ∨ m = 6 ∨ m = 9 ∨ m = 11 then 30 else 31

/-- a date of the proleptic Gregorian calendar -/
def validDate (y m d : Int) : Prop := 1 ≤ m ∧ m ≤ 12 ∧ 1 ≤ d ∧ d ≤ daysInMonth y m

/-- date → days → date, for every date from the year 1 on -/
theorem civilFromDays_daysFromCivil (y m d : Int) (hy : 1 ≤ y) (hv : validDate y m d) :
    civilFromDays (daysFromCivil y m d) = (y, m, d) := by
  obtain ⟨hm1, hm2, hd1, hd2⟩ := hv
  simp only [daysFromCivil]
  generalize hyy : (if m ≤ 2 then y - 1 else y) = yy
  have hyy0 : yy ≥ 0 := by rw [← hyy]; split <;> omega
  simp only [hyy0, if_true]
  generalize hE : yy / 400 = era
  generalize hYo : yy - era * 400 = yoe
  have hera : 0 ≤ era := by omega
  have hyoe : 0 ≤ yoe ∧ yoe ≤ 399 := by omega
  generalize hMp : (m + 9) % 12 = mp
  have hmp : 0 ≤ mp ∧ mp ≤ 11 := by omega
  have hmm : m = if mp < 10 then mp + 3 else mp - 9 := by split <;> omega
  generalize hDy : (153 * mp + 2) / 5 + d - 1 = doyv
  -- the day of the year (counted from March 1st) fits the year
  have hdoyv : (0 ≤ doyv ∧ (doyv ≤ 364 ∨ (doyv = 365 ∧ (yoe + 1) % 4 = 0 ∧ ((yoe + 1) % 100 ≠ 0 ∨ yoe = 399)))) ∧
      (5 * doyv + 2) / 153 = mp := by
    have hcases : m = 1 ∨ m = 2 ∨ m = 3 ∨ m = 4 ∨ m = 5 ∨ m = 6 ∨ m = 7 ∨ m = 8 ∨ m = 9 ∨ m = 10 ∨ m = 11 ∨ m = 12 := by omega
    rcases hcases with rfl | rfl | rfl | rfl | rfl | rfl | rfl | rfl | rfl | rfl | rfl | rfl
    case inr.inl =>
      -- February
      simp only [daysInMonth, if_true] at hd2
      by_cases hl : leapYear y = true
      · simp only [hl, if_true] at hd2
        simp only [leapYear, Bool.and_eq_true, Bool.or_eq_true, beq_iff_eq, bne_iff_ne] at hl
        omega
      · simp only [hl, Bool.false_eq_true, if_false] at hd2
        omega
    all_goals (simp [daysInMonth] at hd2; omega)
  obtain ⟨hdoyv, hmpb⟩ := hdoyv
  generalize hDoe : yoe * 365 + yoe / 4 - yoe / 100 + doyv = doe
  have hdoe : 0 ≤ doe ∧ doe ≤ 146096 := by omega
  simp only [civilFromDays]
  have hz : era * 146097 + doe - 719468 + 719468 = era * 146097 + doe := by omega
  have hz0 : era * 146097 + doe ≥ 0 := by omega
  simp only [hz, hz0, if_true]
  have hq : (era * 146097 + doe) / 146097 = era := by omega
  have hr : era * 146097 + doe - era * 146097 = doe := by omega
  simp only [hq, hr]
  obtain ⟨n, rfl⟩ : ∃ n : Nat, doe = (n : Int) := ⟨doe.toNat, by omega⟩
  have hf := era_facts n (by omega)
  simp only at hf
  generalize hY : ((n : Int) - (n : Int) / 1460 + (n : Int) / 36524 - (n : Int) / 146096) / 365 = yoe'
  have hyn : yoe' = (((n - n / 1460 + n / 36524 - n / 146096) / 365 : Nat) : Int) := by omega
  generalize hYn : (n - n / 1460 + n / 36524 - n / 146096) / 365 = yn at hf hyn
  subst hyn
  have huniq : (yn : Int) = yoe :=
    uniq n yn yoe doyv (by omega) hyoe.1 (by omega) hyoe.2 (by omega) (by omega) (by omega) hDoe hdoyv.1 hdoyv.2
  rw [huniq]
  have hdoy' : (n : Int) - (365 * yoe + yoe / 4 - yoe / 100) = doyv := by omega
  rw [hdoy', hmpb, ← hmm]
  have hd' : doyv - (153 * mp + 2) / 5 + 1 = d := by omega
  rw [hd']
  have hy' : (if m ≤ 2 then yoe + era * 400 + 1 else yoe + era * 400) = y := by
    rw [← hyy] at hE hYo
    split at hE <;> split <;> omega
  rw [hy']

/-- minutes since the epoch of a UTC date and time of day -/
def instantMin (y mo d h mi : Int) : Int := (daysFromCivil y mo d * 24 + h) * 60 + mi

section
open Edxml.Gate


/-- what `civilFromDays` yields is a date of the calendar -/
theorem civilFromDays_validDate (z : Int) (hz : -719468 ≤ z) :
    validDate (civilFromDays z).1 (civilFromDays z).2.1 (civilFromDays z).2.2 := by
  simp only [civilFromDays, validDate]
  have h0 : z + 719468 ≥ 0 := by omega
  simp only [h0, if_true]
  generalize hE : (z + 719468) / 146097 = era
  generalize hD : z + 719468 - era * 146097 = doe
  have hdoe : 0 ≤ doe ∧ doe ≤ 146096 := by omega
  have hera : 0 ≤ era := by omega
  obtain ⟨n, rfl⟩ : ∃ n : Nat, doe = (n : Int) := ⟨doe.toNat, by omega⟩
  have hf := era_facts n (by omega)
  simp only at hf
  generalize hY : ((n : Int) - (n : Int) / 1460 + (n : Int) / 36524 - (n : Int) / 146096) / 365 = yoe
  have hyn : yoe = (((n - n / 1460 + n / 36524 - n / 146096) / 365 : Nat) : Int) := by omega
  generalize hYn : (n - n / 1460 + n / 36524 - n / 146096) / 365 = yn at hf hyn
  subst hyn
  generalize hO : (n : Int) - (365 * (yn : Int) + (yn : Int) / 4 - (yn : Int) / 100) = doy
  generalize hM : (5 * doy + 2) / 153 = mp
  have hdoy : 0 ≤ doy ∧ doy ≤ 365 := by omega
  have hleap : doy ≤ 364 ∨ (((yn : Int) + 1) % 4 = 0 ∧ (((yn : Int) + 1) % 100 ≠ 0 ∨ (yn : Int) = 399)) := by omega
  have hmp : 0 ≤ mp ∧ mp ≤ 11 := by omega
  have hcases : mp = 0 ∨ mp = 1 ∨ mp = 2 ∨ mp = 3 ∨ mp = 4 ∨ mp = 5 ∨ mp = 6 ∨ mp = 7 ∨ mp = 8 ∨ mp = 9 ∨ mp = 10 ∨ mp = 11 := by omega
  rcases hcases with rfl | rfl | rfl | rfl | rfl | rfl | rfl | rfl | rfl | rfl | rfl | rfl
  case inr.inr.inr.inr.inr.inr.inr.inr.inr.inr.inr =>
    -- February: the last month of the year that starts in March
    clear hf hY hYn hD hE hdoe hO
    simp only [daysInMonth, show ¬ ((11 : Int) < 10) by decide, if_false, show (11 : Int) - 9 = 2 by decide, show (2 : Int) ≤ 2 by decide, if_true]
    refine ⟨by decide, by decide, by omega, ?_⟩
    by_cases hl : leapYear ((yn : Int) + era * 400 + 1) = true
    · simp only [hl, if_true]; omega
    · simp only [hl, Bool.false_eq_true, if_false]
      have hnl : ¬ ((((yn : Int) + 1) % 4 = 0 ∧ (((yn : Int) + 1) % 100 ≠ 0 ∨ (yn : Int) = 399))) := by
        intro hc
        apply hl
        simp only [leapYear, Bool.and_eq_true, Bool.or_eq_true, beq_iff_eq, bne_iff_ne]
        have h4 : ((yn : Int) + era * 400 + 1) % 4 = ((yn : Int) + 1) % 4 := by omega
        have h100 : ((yn : Int) + era * 400 + 1) % 100 = ((yn : Int) + 1) % 100 := by omega
        refine ⟨by omega, ?_⟩
        rcases hc.2 with h | h
        · exact Or.inl (by omega)
        · exact Or.inr (by omega)
      have : doy ≤ 364 := by
        rcases hleap with h | h
        · exact h
        · exact absurd h hnl
      omega
  all_goals (clear hf hY hYn hD hE hdoe hO hleap; simp [daysInMonth]; omega)


theorem leapYear_eq_isLeap (y : Nat) : leapYear (y : Int) = isLeap y := by
  unfold leapYear isLeap
  have e4 : ((y : Int) % 4 == 0) = (y % 4 == 0) := by
    rw [Bool.eq_iff_iff]; simp only [beq_iff_eq]; omega
  have e100 : ((y : Int) % 100 != 0) = (y % 100 != 0) := by
    rw [Bool.eq_iff_iff]; simp only [bne_iff_ne, ne_eq]; omega
  have e400 : ((y : Int) % 400 == 0) = (y % 400 == 0) := by
    rw [Bool.eq_iff_iff]; simp only [beq_iff_eq]; omega
  rw [e4, e100, e400]
  by_cases h400 : y % 400 = 0
  · have h4 : y % 4 = 0 := by omega
    simp [h400, h4]
  · have hc : (y % 400 == 0) = false := by simpa using h400
    rw [hc]; simp

theorem validDate_nat (y m d : Nat) (h : validDate y m d) : 1 ≤ m ∧ m ≤ 12 ∧ 1 ≤ d ∧ d ≤ daysIn y m := by
  obtain ⟨h1, h2, h3, h4⟩ := h
  refine ⟨by omega, by omega, by omega, ?_⟩
  unfold daysInMonth at h4
  unfold daysIn
  rw [leapYear_eq_isLeap] at h4
  by_cases hm : m = 2
  · subst hm
    have h2 : ((2 : Nat) : Int) = 2 := rfl
    simp only [h2, if_true, beq_self_eq_true] at h4 ⊢
    by_cases hl : isLeap y = true
    · simp only [hl, if_true] at h4 ⊢; omega
    · simp only [hl, Bool.false_eq_true, if_false] at h4 ⊢; omega
  · have hm' : ¬ ((m : Int) = 2) := by omega
    simp only [hm', if_false] at h4
    have hb : (m == 2) = false := by simpa using hm
    simp only [hb, Bool.false_eq_true, if_false]
    by_cases h30 : m = 4 ∨ m = 6 ∨ m = 9 ∨ m = 11
    · have : ((m : Int) = 4 ∨ (m : Int) = 6 ∨ (m : Int) = 9 ∨ (m : Int) = 11) := by omega
      simp only [this, if_true] at h4
      have hb2 : (m == 4 || m == 6 || m == 9 || m == 11) = true := by
        rcases h30 with h | h | h | h <;> simp [h]
      simp only [hb2, if_true]; omega
    · have : ¬ ((m : Int) = 4 ∨ (m : Int) = 6 ∨ (m : Int) = 9 ∨ (m : Int) = 11) := by omega
      simp only [this, if_false] at h4
      have hb2 : (m == 4 || m == 6 || m == 9 || m == 11) = false := by
        simp only [Bool.or_eq_false_iff, beq_eq_false_iff_ne, ne_eq]
        omega
      simp only [hb2, Bool.false_eq_true, if_false]; omega


end

end Edxml.Norm
