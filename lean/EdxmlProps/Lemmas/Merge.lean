/-
Lemmas about the merge model: object sets, Python min/max, stable version sort.
-/
import EdxmlModel.Event.Merge
import EdxmlProps.Lemmas.ListSet
namespace Edxml

theorem mem_canonS (a : String) (l : List String) : a ∈ canonS l ↔ a ∈ l :=
  mem_canon strLt_strictTotal a l

theorem canonS_idem (l : List String) : canonS (canonS l) = canonS l := canon_idem strLt_strictTotal l

theorem canonS_eq_iff (l₁ l₂ : List String) : canonS l₁ = canonS l₂ ↔ ∀ a, a ∈ l₁ ↔ a ∈ l₂ :=
  canon_eq_iff strLt_strictTotal l₁ l₂

theorem canonS_singleton (a : String) : canonS [a] = [a] := rfl

theorem canonS_nil : canonS ([] : List String) = [] := rfl

theorem canonS_eq_nil {l : List String} : canonS l = [] ↔ l = [] := by
  constructor
  · intro h
    cases l with
    | nil => rfl
    | cons a t =>
      have : a ∈ canonS (a :: t) := (mem_canonS a _).mpr (by simp)
      rw [h] at this; cases this
  · intro h; rw [h]; rfl

theorem mem_objects (e : Event) (p v : String) : v ∈ e.objects p ↔ (p, v) ∈ e.pairs := by
  unfold Event.objects
  rw [mem_canonS]
  simp only [List.mem_map, List.mem_filter, beq_iff_eq]
  constructor
  · rintro ⟨⟨q, w⟩, ⟨hm, hq⟩, rfl⟩
    simp only at hq; subst hq; exact hm
  · intro h; exact ⟨(p, v), ⟨h, rfl⟩, rfl⟩

theorem objects_canon (e : Event) (p : String) : canonS (e.objects p) = e.objects p := by
  unfold Event.objects; exact canonS_idem _

/-- Events with the same (property, object) pairs have the same object sets. -/
theorem objects_ext (e₁ e₂ : Event) (p : String)
    (h : ∀ v, (p, v) ∈ e₁.pairs ↔ (p, v) ∈ e₂.pairs) : e₁.objects p = e₂.objects p := by
  unfold Event.objects
  apply (canonS_eq_iff _ _).mpr
  intro v
  simp only [List.mem_map, List.mem_filter, beq_iff_eq]
  constructor
  · rintro ⟨⟨q, w⟩, ⟨hm, hq⟩, rfl⟩
    simp only at hq; subst hq
    exact ⟨(q, w), ⟨(h w).mp hm, rfl⟩, rfl⟩
  · rintro ⟨⟨q, w⟩, ⟨hm, hq⟩, rfl⟩
    simp only at hq; subst hq
    exact ⟨(q, w), ⟨(h w).mpr hm, rfl⟩, rfl⟩

/-! ### keys -/

structure TotalPreorder (le : α → α → Bool) : Prop where
  total : ∀ a b, le a b = true ∨ le b a = true
  trans : ∀ a b c, le a b = true → le b c = true → le a c = true

theorem keyLe_preorder (numeric : Bool) : TotalPreorder (keyLe numeric) where
  total := by
    intro a b
    unfold keyLe
    cases numeric with
    | true =>
      simp only [if_true, decide_eq_true_eq]
      exact Rat.le_total
    | false =>
      simp only [Bool.false_eq_true, if_false, Bool.not_eq_true']
      cases h : strLt b a with
      | false => exact Or.inl rfl
      | true => exact Or.inr (strLt_strictTotal.asymm h)
  trans := by
    intro a b c
    unfold keyLe
    cases numeric with
    | true =>
      simp only [if_true, decide_eq_true_eq]
      exact Rat.le_trans
    | false =>
      simp only [Bool.false_eq_true, if_false, Bool.not_eq_true']
      intro h1 h2
      -- ¬ b<a, ¬ c<b ⊢ ¬ c<a
      cases h : strLt c a with
      | false => rfl
      | true =>
        -- c < a; compare b with c
        cases hbc : strLt b c with
        | true =>
          have := strLt_strictTotal.trans _ _ _ hbc h
          rw [h1] at this; cases this
        | false =>
          have : b = c := strLt_strictTotal.total b c hbc h2
          subst this; rw [h1] at h; cases h

/-! ### Python min / max -/

theorem foldl_min_spec (le : α → α → Bool) (hp : TotalPreorder le) :
    ∀ (xs seen : List α) (m : α), m ∈ seen → (∀ y ∈ seen, le m y = true) →
      let r := xs.foldl (fun m y => if le m y then m else y) m
      r ∈ seen ++ xs ∧ ∀ y ∈ seen ++ xs, le r y = true := by
  intro xs
  induction xs with
  | nil => intro seen m hm hall; simpa using ⟨hm, hall⟩
  | cons x xs ih =>
    intro seen m hm hall
    simp only [List.foldl_cons]
    by_cases hle : le m x = true
    · rw [if_pos hle]
      have := ih (seen ++ [x]) m (by simp [hm]) (by
        intro y hy
        rcases List.mem_append.mp hy with h | h
        · exact hall y h
        · simp at h; subst h; exact hle)
      simpa [List.append_assoc] using this
    · rw [if_neg hle]
      have hxm : le x m = true := by
        rcases hp.total m x with h | h
        · exact absurd h hle
        · exact h
      have := ih (seen ++ [x]) x (by simp) (by
        intro y hy
        rcases List.mem_append.mp hy with h | h
        · exact hp.trans _ _ _ hxm (hall y h)
        · simp at h; subst h
          rcases hp.total y y with h | h <;> exact h)
      simpa [List.append_assoc] using this

theorem pyMin_spec (le : α → α → Bool) (hp : TotalPreorder le) (l : List α) (m : α)
    (h : pyMin le l = some m) : m ∈ l ∧ ∀ y ∈ l, le m y = true := by
  cases l with
  | nil => cases h
  | cons x xs =>
    simp only [pyMin, Option.some.injEq] at h
    have refl : le x x = true := by rcases hp.total x x with h | h <;> exact h
    have := foldl_min_spec le hp xs [x] x (by simp) (by intro y hy; simp at hy; subst hy; exact refl)
    rw [h] at this
    simpa using this

theorem pyMin_isSome (le : α → α → Bool) (l : List α) (h : l ≠ []) : ∃ m, pyMin le l = some m := by
  cases l with
  | nil => exact absurd rfl h
  | cons x xs => exact ⟨_, rfl⟩

theorem pyMax_eq_pyMin_flip (le : α → α → Bool) (l : List α) :
    pyMax le l = pyMin (fun a b => le b a) l := by
  cases l <;> rfl

theorem flip_preorder {le : α → α → Bool} (hp : TotalPreorder le) :
    TotalPreorder (fun a b => le b a) where
  total := fun a b => (hp.total a b).symm
  trans := fun a b c h1 h2 => hp.trans c b a h2 h1

theorem pyMax_spec (le : α → α → Bool) (hp : TotalPreorder le) (l : List α) (m : α)
    (h : pyMax le l = some m) : m ∈ l ∧ ∀ y ∈ l, le y m = true := by
  rw [pyMax_eq_pyMin_flip] at h
  exact pyMin_spec _ (flip_preorder hp) l m h

/-! ### stable sort -/

theorem insertByKey_perm (k : α → Int) (x : α) (l : List α) : (insertByKey k x l).Perm (x :: l) := by
  induction l with
  | nil => exact List.Perm.refl _
  | cons y ys ih =>
    unfold insertByKey
    split
    · exact List.Perm.refl _
    · exact (List.Perm.cons y ih).trans (List.Perm.swap x y ys)

theorem stableSort_perm (k : α → Int) (l : List α) : (stableSort k l).Perm l := by
  unfold stableSort
  suffices ∀ (l acc : List α), (l.foldl (fun acc x => insertByKey k x acc) acc).Perm (acc ++ l) by
    simpa using this l []
  intro l
  induction l with
  | nil => intro acc; simp
  | cons x xs ih =>
    intro acc
    simp only [List.foldl_cons]
    refine (ih _).trans ?_
    have := insertByKey_perm k x acc
    refine (List.Perm.append_right xs this).trans ?_
    simp only [List.cons_append]
    exact (List.perm_middle (l₁ := acc) (a := x) (l₂ := xs)).symm

abbrev KSorted (k : α → Int) (l : List α) : Prop := l.Pairwise (fun a b => k a ≤ k b)

theorem mem_insertByKey (k : α → Int) (x a : α) (l : List α) :
    a ∈ insertByKey k x l ↔ a = x ∨ a ∈ l := by
  rw [(insertByKey_perm k x l).mem_iff]; simp

theorem insertByKey_sorted (k : α → Int) (x : α) (l : List α) (h : KSorted k l) :
    KSorted k (insertByKey k x l) := by
  induction l with
  | nil => simp [insertByKey]
  | cons y ys ih =>
    have hy := List.pairwise_cons.mp h
    unfold insertByKey
    split
    · rename_i hxy
      refine List.pairwise_cons.mpr ⟨?_, h⟩
      intro b hb
      rcases List.mem_cons.mp hb with rfl | hb
      · omega
      · have := hy.1 b hb; omega
    · rename_i hxy
      refine List.pairwise_cons.mpr ⟨?_, ih hy.2⟩
      intro b hb
      rcases (mem_insertByKey k x b ys).mp hb with rfl | hb
      · omega
      · exact hy.1 b hb

theorem stableSort_sorted (k : α → Int) (l : List α) : KSorted k (stableSort k l) := by
  unfold stableSort
  suffices ∀ (l acc : List α), KSorted k acc → KSorted k (l.foldl (fun acc x => insertByKey k x acc) acc) by
    exact this l [] List.Pairwise.nil
  intro l
  induction l with
  | nil => intro acc h; exact h
  | cons x xs ih => intro acc h; exact ih _ (insertByKey_sorted k x acc h)

theorem getLast_max (k : α → Int) (l : List α) (h : KSorted k l) (e : α) (he : l.getLast? = some e) :
    ∀ x ∈ l, k x ≤ k e := by
  induction l with
  | nil => cases he
  | cons y ys ih =>
    have hy := List.pairwise_cons.mp h
    intro x hx
    cases ys with
    | nil =>
      simp at he hx; subst he; subst hx; omega
    | cons z zs =>
      have he' : (z :: zs).getLast? = some e := by simpa [List.getLast?_cons_cons] using he
      rcases List.mem_cons.mp hx with rfl | hx
      · have hmem : e ∈ z :: zs := List.mem_of_getLast? he'
        exact hy.1 e hmem
      · exact ih hy.2 he' x hx

/-! ### firstNonEmpty -/

theorem firstNonEmpty_spec (p : String) (es : List Event) :
    (firstNonEmpty p es = [] ∧ ∀ e ∈ es, e.objects p = []) ∨
    (∃ pre e post, es = pre ++ e :: post ∧ (∀ x ∈ pre, x.objects p = []) ∧ e.objects p ≠ [] ∧
      firstNonEmpty p es = e.objects p) := by
  induction es with
  | nil => left; simp [firstNonEmpty]
  | cons e es ih =>
    unfold firstNonEmpty
    by_cases he : (e.objects p).isEmpty = true
    · rw [if_pos he]
      have he' : e.objects p = [] := List.isEmpty_iff.mp he
      rcases ih with ⟨h1, h2⟩ | ⟨pre, x, post, h1, h2, h3, h4⟩
      · left; refine ⟨h1, ?_⟩
        intro y hy
        rcases List.mem_cons.mp hy with rfl | hy
        · exact he'
        · exact h2 y hy
      · right
        refine ⟨e :: pre, x, post, by rw [h1]; rfl, ?_, h3, h4⟩
        intro y hy
        rcases List.mem_cons.mp hy with rfl | hy
        · exact he'
        · exact h2 y hy
    · rw [if_neg he]
      right
      refine ⟨[], e, es, rfl, by simp, ?_, rfl⟩
      intro h; rw [h] at he; exact he rfl

end Edxml
