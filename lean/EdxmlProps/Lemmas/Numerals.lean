/-
Numerals, continued: reading back what the normalizers render (`parseInt`, `parseDec`), fixed-width
digit strings, and the gate's verdict on a rendered decimal.
-/
import EdxmlModel.DataType.Normalize
import EdxmlProps.Lemmas.Digits
import Mathlib.Tactic.Ring
namespace Edxml.Gate
open Edxml.Norm
open Edxml.Norm

theorem allDigits_of_posDigits {cs : List Char} (h : PosDigits cs) : cs.all isDigit = true := by
  obtain ⟨c, r, rfl, h1, h2, h3⟩ := h
  simp only [List.all_cons, Bool.and_eq_true]
  exact ⟨(isDigit_iff c).mpr ⟨by omega, h2⟩, h3⟩

theorem all_isDigit_render (n : Nat) : (renderNat n).all isDigit = true := by
  rcases (canonNat_iff _).mp (canonNat_render n) with h0 | hp
  · rw [h0]; rfl
  · exact allDigits_of_posDigits hp

theorem render_ne_nil (n : Nat) : renderNat n ≠ [] := by
  rcases (canonNat_iff _).mp (canonNat_render n) with h0 | ⟨c, r, h, _⟩
  · rw [h0]; simp
  · rw [h]; simp

theorem allDigits_render (n : Nat) : allDigits (renderNat n) = true := by
  unfold allDigits
  simp only [Bool.and_eq_true, Bool.not_eq_true', List.isEmpty_eq_false_iff]
  exact ⟨render_ne_nil n, all_isDigit_render n⟩

/-- the first character of a numeral is a digit, hence neither '-' nor '+' -/
theorem render_head (n : Nat) : ∃ c r, renderNat n = c :: r ∧ isDigit c = true := by
  have hne := render_ne_nil n
  have hall := all_isDigit_render n
  match h : renderNat n with
  | [] => exact absurd h hne
  | c :: r =>
    rw [h] at hall
    simp only [List.all_cons, Bool.and_eq_true] at hall
    exact ⟨c, r, rfl, hall.1⟩

theorem splitSign_digit {c : Char} (r : List Char) (hd : isDigit c = true) : splitSign (c :: r) = (false, c :: r) := by
  have hc := (isDigit_iff c).mp hd
  have hm : c ≠ '-' := by intro e; rw [e] at hc; have : ('-' : Char).toNat = 45 := rfl; omega
  have hp : c ≠ '+' := by intro e; rw [e] at hc; have : ('+' : Char).toNat = 43 := rfl; omega
  unfold splitSign
  split
  · rename_i heq; simp only [List.cons.injEq] at heq; exact absurd heq.1 hm
  · rename_i heq; simp only [List.cons.injEq] at heq; exact absurd heq.1 hp
  · rfl

theorem splitSign_render (n : Nat) : splitSign (renderNat n) = (false, renderNat n) := by
  obtain ⟨c, r, h, hd⟩ := render_head n
  rw [h]; exact splitSign_digit r hd

theorem parseInt_renderNat (n : Nat) : parseInt (renderNat n) = some (n : Int) := by
  unfold parseInt
  simp only [splitSign_render, allDigits_render, natVal_render, if_true, Bool.false_eq_true, if_false]

theorem parseInt_renderInt (z : Int) : parseInt (renderInt z) = some z := by
  unfold renderInt
  split
  · rename_i hz
    unfold parseInt
    simp only [splitSign, allDigits_render, natVal_render, if_true]
    congr 1; omega
  · rename_i hz
    rw [parseInt_renderNat]; congr 1; omega


/-! ### fixed-width digit strings -/

theorem natValFold (b : List Char) : ∀ acc : Nat,
    b.foldl (fun n c => 10 * n + (c.toNat - 48)) acc = acc * 10 ^ b.length + natVal b := by
  unfold natVal
  induction b with
  | nil => intro acc; simp
  | cons c b ih =>
    intro acc
    simp only [List.foldl_cons, List.length_cons]
    rw [ih (10 * acc + (c.toNat - 48)), ih (10 * 0 + (c.toNat - 48))]
    ring

theorem natVal_append' (a b : List Char) : natVal (a ++ b) = natVal a * 10 ^ b.length + natVal b := by
  show (a ++ b).foldl _ 0 = _
  rw [List.foldl_append]
  exact natValFold b _

theorem natVal_replicate_zero (k : Nat) : natVal (List.replicate k '0') = 0 := by
  induction k with
  | zero => rfl
  | succ k ih =>
    rw [List.replicate_succ]
    have := natVal_append' ['0'] (List.replicate k '0')
    simp only [List.singleton_append] at this
    have h0 : natVal ['0'] = 0 := rfl
    rw [this, ih, h0]; simp

theorem length_render_le : ∀ (F r : Nat), 1 ≤ F → r < 10 ^ F → (renderNat r).length ≤ F := by
  intro F
  induction F with
  | zero => intro r h; omega
  | succ F ih =>
    intro r _ hr
    rw [renderNat]
    split
    · simp
    · rename_i h10
      have hF : 1 ≤ F := by
        rcases F with _ | F
        · simp at hr; omega
        · omega
      have : r / 10 < 10 ^ F := by
        rw [Nat.pow_succ] at hr
        omega
      have := ih (r / 10) hF this
      simp only [List.length_append, List.length_cons, List.length_nil]
      omega

theorem padLeft_length {F : Nat} {cs : List Char} (h : cs.length ≤ F) : (padLeft F cs).length = F := by
  unfold padLeft; simp only [List.length_append, List.length_replicate]; omega

theorem padLeft_all {F : Nat} {cs : List Char} (h : cs.all isDigit = true) : (padLeft F cs).all isDigit = true := by
  unfold padLeft
  simp only [List.all_append, Bool.and_eq_true, h, and_true]
  simp only [List.all_eq_true, List.mem_replicate]
  rintro c ⟨_, rfl⟩; rfl

theorem natVal_padLeft (F : Nat) (cs : List Char) : natVal (padLeft F cs) = natVal cs := by
  unfold padLeft
  rw [natVal_append', natVal_replicate_zero]; omega

/-- the fractional digits of the rendering of `n / 10^F` -/
def fracDigits (F n : Nat) : List Char := if F = 0 then [] else padLeft F (renderNat (n % 10 ^ F))

theorem fracDigits_length (F n : Nat) : (fracDigits F n).length = F := by
  unfold fracDigits
  split
  · rename_i h; simp [h]
  · rename_i h
    exact padLeft_length (length_render_le F _ (by omega) (Nat.mod_lt _ (Nat.pow_pos (by omega))))

theorem fracDigits_all (F n : Nat) : (fracDigits F n).all isDigit = true := by
  unfold fracDigits
  split
  · rfl
  · exact padLeft_all (all_isDigit_render _)

theorem natVal_fracDigits (F n : Nat) : natVal (fracDigits F n) = n % 10 ^ F := by
  unfold fracDigits
  split
  · rename_i h; subst h; simp [natVal, Nat.mod_one]
  · rw [natVal_padLeft, natVal_render]

theorem renderScaled_eq (F : Nat) (neg : Bool) (n : Nat) :
    renderScaled F neg n = (if neg && n != 0 then ['-'] else []) ++ renderNat (n / 10 ^ F) ++
      (if F = 0 then [] else '.' :: fracDigits F n) := by
  unfold renderScaled fracDigits
  by_cases hF : F = 0 <;> simp [hF]

/-! ### reading a rendered decimal back -/

theorem takeWhile_all {p : α → Bool} {l : List α} (h : ∀ a ∈ l, p a = true) : l.takeWhile p = l := by
  have := List.takeWhile_append_of_pos (l₂ := []) h
  simpa using this

theorem dropWhile_all {p : α → Bool} {l : List α} (h : ∀ a ∈ l, p a = true) : l.dropWhile p = [] := by
  have := List.dropWhile_append_of_pos (l₂ := []) h
  simpa using this

theorem dot_not_digit : isDigit '.' = false := by decide

theorem takeWhile_render_tail (q : Nat) (t : List Char) (ht : t = [] ∨ ∃ u, t = '.' :: u) :
    (renderNat q ++ t).takeWhile isDigit = renderNat q ∧ (renderNat q ++ t).dropWhile isDigit = t := by
  have hall : ∀ a ∈ renderNat q, isDigit a = true := List.all_eq_true.mp (all_isDigit_render q)
  rw [List.takeWhile_append_of_pos hall, List.dropWhile_append_of_pos hall]
  rcases ht with rfl | ⟨u, rfl⟩
  · simp
  · simp [dot_not_digit]

theorem any_nonzero_of_posDigits {cs : List Char} (h : PosDigits cs) : cs.any (· != '0') = true := by
  obtain ⟨c, r, rfl, h1, _, _⟩ := h
  simp only [List.any_cons, Bool.or_eq_true, bne_iff_ne, ne_eq]
  left
  intro e; rw [e] at h1
  have : ('0' : Char).toNat = 48 := rfl
  omega

theorem any_nonzero_digits (F n : Nat) (hn : n ≠ 0) :
    (renderNat (n / 10 ^ F) ++ fracDigits F n).any (· != '0') = true := by
  rw [List.any_append, Bool.or_eq_true]
  by_cases hq : n / 10 ^ F = 0
  · right
    have hr : n % 10 ^ F ≠ 0 := by
      intro hr
      have := Nat.div_add_mod n (10 ^ F)
      rw [hq, hr] at this; omega
    have hF : F ≠ 0 := by
      intro hF; subst hF; simp [Nat.mod_one] at hr
    unfold fracDigits padLeft
    rw [if_neg hF, List.any_append, Bool.or_eq_true]
    right
    exact any_nonzero_of_posDigits (posDigits_render (Nat.pos_of_ne_zero hr))
  · left
    exact any_nonzero_of_posDigits (posDigits_render (Nat.pos_of_ne_zero hq))

theorem splitMinus_render (q : Nat) (t : List Char) : splitMinus (renderNat q ++ t) = (false, renderNat q ++ t) := by
  obtain ⟨c, r, h, hd⟩ := render_head q
  have hc := (isDigit_iff c).mp hd
  rw [h]
  unfold splitMinus
  split
  · rename_i heq
    simp only [List.cons_append, List.cons.injEq] at heq
    have : ('-' : Char).toNat = 45 := rfl
    rw [heq.1] at hc; omega
  · rfl

theorem splitSign_render_append (q : Nat) (t : List Char) : splitSign (renderNat q ++ t) = (false, renderNat q ++ t) := by
  obtain ⟨c, r, h, hd⟩ := render_head q
  rw [h]
  exact splitSign_digit _ hd

/-- C13/C03: the gate's verdict on a rendered decimal. -/
theorem renderScaled_accepted_iff (T F : Nat) (signed neg : Bool) (n : Nat) :
    acceptsDecimal T F signed (renderScaled F neg n) = true ↔
      ((neg = true ∧ n ≠ 0) → signed = true) ∧ totalDigits (renderNat (n / 10 ^ F)) (fracDigits F n) ≤ T := by
  rw [renderScaled_eq]
  have htail : (if F = 0 then [] else '.' :: fracDigits F n) = [] ∨ ∃ u, (if F = 0 then [] else '.' :: fracDigits F n) = '.' :: u := by
    split
    · exact Or.inl rfl
    · exact Or.inr ⟨_, rfl⟩
  have hfrac : fracOf F (if F = 0 then [] else '.' :: fracDigits F n) = some (fracDigits F n) := by
    unfold fracOf
    rcases F with _ | F
    · simp [fracDigits]
    · simp only [Nat.succ_ne_zero, if_false, fracDigits_all, fracDigits_length, beq_self_eq_true, Bool.and_self, if_true]
  by_cases hs : (neg && n != 0) = true
  · -- a sign is written
    have hneg : neg = true := by simp only [Bool.and_eq_true] at hs; exact hs.1
    have hn : n ≠ 0 := by simp only [Bool.and_eq_true, bne_iff_ne, ne_eq] at hs; exact hs.2
    simp only [hs, if_true, List.append_assoc, List.cons_append, List.nil_append]
    unfold acceptsDecimal
    simp only [splitMinus]
    rw [(takeWhile_render_tail _ _ htail).1, (takeWhile_render_tail _ _ htail).2, hfrac]
    simp only [canonNat_render, Bool.not_true, Bool.false_or, Bool.true_and, any_nonzero_digits F n hn,
      Bool.and_true, Bool.and_eq_true, decide_eq_true_eq]
    constructor
    · rintro ⟨h1, h2⟩; exact ⟨fun _ => h1, h2⟩
    · rintro ⟨h1, h2⟩; exact ⟨h1 ⟨hneg, hn⟩, h2⟩
  · have hs' : (neg && n != 0) = false := by simpa using hs
    simp only [hs', Bool.false_eq_true, if_false, List.nil_append, List.append_assoc]
    unfold acceptsDecimal
    rw [splitMinus_render]
    simp only
    rw [(takeWhile_render_tail _ _ htail).1, (takeWhile_render_tail _ _ htail).2, hfrac]
    simp only [canonNat_render, Bool.not_false, Bool.true_or, Bool.true_and, Bool.and_eq_true, decide_eq_true_eq]
    constructor
    · intro h2
      refine ⟨?_, h2⟩
      rintro ⟨h1, h3⟩
      simp [h1, h3] at hs'
    · exact fun h => h.2

/-- reading a rendered decimal back gives the sign, the scaled magnitude and the scale -/
theorem parseDec_renderScaled (F : Nat) (neg : Bool) (n : Nat) :
    parseDec (renderScaled F neg n) = some (neg && n != 0, n, -(F : Int)) := by
  rw [renderScaled_eq]
  have htail : (if F = 0 then [] else '.' :: fracDigits F n) = [] ∨ ∃ u, (if F = 0 then [] else '.' :: fracDigits F n) = '.' :: u := by
    split
    · exact Or.inl rfl
    · exact Or.inr ⟨_, rfl⟩
  have hval : natVal (renderNat (n / 10 ^ F) ++ fracDigits F n) = n := by
    rw [natVal_append', natVal_render, natVal_fracDigits, fracDigits_length]
    have := Nat.div_add_mod n (10 ^ F)
    rw [Nat.mul_comm] at this; exact this
  have hsplit : splitSign ((if neg && n != 0 then ['-'] else []) ++ renderNat (n / 10 ^ F) ++ (if F = 0 then [] else '.' :: fracDigits F n))
      = (neg && n != 0, renderNat (n / 10 ^ F) ++ (if F = 0 then [] else '.' :: fracDigits F n)) := by
    by_cases hs : (neg && n != 0) = true
    · simp only [hs, if_true, List.append_assoc, List.cons_append, List.nil_append, splitSign]
    · have hs' : (neg && n != 0) = false := by simpa using hs
      simp only [hs', Bool.false_eq_true, if_false, List.nil_append]
      exact splitSign_render_append _ _
  unfold parseDec
  simp only [hsplit, (takeWhile_render_tail _ _ htail).1, (takeWhile_render_tail _ _ htail).2]
  have hne : (renderNat (n / 10 ^ F)).isEmpty = false := by
    simp only [List.isEmpty_eq_false_iff]; exact render_ne_nil _
  rcases F with _ | F
  · simp only [if_true, hne, Bool.false_and, Bool.false_eq_true, if_false]
    simp only [fracDigits, if_true, List.append_nil] at hval
    simp only [Nat.pow_zero, Nat.div_one] at hval ⊢
    simp [hval]
  · have hall : ∀ a ∈ fracDigits (F + 1) n, isDigit a = true := List.all_eq_true.mp (fracDigits_all _ _)
    simp only [Nat.succ_ne_zero, if_false, hne, Bool.false_and, Bool.false_eq_true]
    rw [takeWhile_all hall, dropWhile_all hall]
    simp only [hval, fracDigits_length]
    simp

end Edxml.Gate
