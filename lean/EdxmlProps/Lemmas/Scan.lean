/-
Lemmas about the template scanner (EdxmlModel/Template/Scan.lean): fuel independence, how the first
string of a template relates to the whole, what `closeOfBy` finds.
-/
import EdxmlModel.Template.Scan
namespace Edxml.Tpl







theorem closeOfBy_some {stop : Char → Bool} {cs body tail : List Char} (h : closeOfBy stop cs = some (body, tail)) :
    cs = body ++ ']' :: ']' :: tail ∧ (∀ c ∈ body, stop c = false) := by
  unfold closeOfBy at h
  split at h
  · rename_i tl hd
    simp only [Option.some.injEq, Prod.mk.injEq] at h
    obtain ⟨rfl, rfl⟩ := h
    refine ⟨?_, ?_⟩
    · conv => lhs; rw [← List.takeWhile_append_dropWhile (p := fun c => !stop c) (l := cs)]
      rw [hd]
    · intro c hc
      have := List.all_eq_true.mp (List.all_takeWhile (p := fun c => !stop c) (l := cs)) c hc
      simpa using this
  · cases h

theorem closeOfBy_length {stop : Char → Bool} {cs body tail : List Char} (h : closeOfBy stop cs = some (body, tail)) :
    tail.length + 2 ≤ cs.length := by
  obtain ⟨rfl, _⟩ := closeOfBy_some h
  simp

theorem findAllF_fuel (stop : Char → Bool) : ∀ (n m : Nat) (cs : List Char), cs.length ≤ n → cs.length ≤ m →
    findAllF stop n cs = findAllF stop m cs := by
  intro n
  induction n with
  | zero => intro m cs h _; have : cs = [] := by simpa using h
            subst this; cases m <;> rfl
  | succ n ih =>
    intro m cs hn hm
    match cs, m with
    | [], 0 => rfl
    | [], m + 1 => rfl
    | c :: cs, 0 => simp at hm
    | c :: cs, m + 1 =>
      simp only [List.length_cons, Nat.add_le_add_iff_right] at hn hm
      simp only [findAllF]
      split
      · cases hc : closeOfBy stop cs.tail with
        | none => simp only; exact ih m cs hn hm
        | some bt =>
          obtain ⟨body, tail⟩ := bt
          simp only
          have := closeOfBy_length hc
          have ht : cs.tail.length ≤ cs.length := by simp
          rw [ih m tail (by omega) (by omega)]
      · exact ih m cs hn hm

theorem findAll_cons_plain (stop : Char → Bool) (c : Char) (cs : List Char)
    (h : (c == '[' && cs.head? == some '[') = false) : findAll stop (c :: cs) = findAll stop cs := by
  simp [findAll, findAllF, h]

theorem findAll_cons_fail (stop : Char → Bool) (c : Char) (cs : List Char)
    (h : closeOfBy stop cs.tail = none) : findAll stop (c :: cs) = findAll stop cs := by
  simp only [findAll, findAllF, List.length_cons, h]
  split <;> rfl

theorem findAll_cons_match (stop : Char → Bool) (rest body tail : List Char)
    (h : closeOfBy stop rest = some (body, tail)) : findAll stop ('[' :: '[' :: rest) = body :: findAll stop tail := by
  simp only [findAll, findAllF, List.length_cons, List.head?_cons, List.tail_cons, h, beq_self_eq_true, Bool.and_self, if_true]
  have := closeOfBy_length h
  rw [findAllF_fuel stop (rest.length + 1) tail.length tail (by omega) (Nat.le_refl _)]

theorem runsOf_ne_nil : ∀ cs, runsOf cs ≠ []
  | [] => by simp [runsOf]
  | c :: cs => by
    simp only [runsOf]
    split
    · simp
    · split <;> simp

/-- the first brace-free string and the rest -/
theorem runsOf_eq (cs : List Char) : ∃ t, runsOf cs = cs.takeWhile (fun c => !isBrace c) :: t := by
  induction cs with
  | nil => exact ⟨[], rfl⟩
  | cons c cs ih =>
    obtain ⟨t, ht⟩ := ih
    simp only [runsOf]
    by_cases hb : isBrace c = true
    · simp [hb]
    · simp only [hb, Bool.false_eq_true, if_false, ht]
      exact ⟨t, by simp [List.takeWhile_cons, hb]⟩

theorem runsOf_append {p : List Char} (hp : ∀ c ∈ p, isBrace c = false) (xs h t : List Char) (t' : List (List Char))
    (hx : runsOf xs = h :: t') (_ : t = t) : runsOf (p ++ xs) = (p ++ h) :: t' := by
  induction p with
  | nil => simpa using hx
  | cons c p ih =>
    have hc : isBrace c = false := hp c (by simp)
    have := ih (fun d hd => hp d (by simp [hd]))
    simp only [List.cons_append, runsOf, hc, Bool.false_eq_true, if_false, this]


theorem closeOfBy_cons_go (stop : Char → Bool) (x : Char) (xs : List Char) (h : stop x = false) :
    closeOfBy stop (x :: xs) = (closeOfBy stop xs).map (fun bt => (x :: bt.1, bt.2)) := by
  unfold closeOfBy
  simp only [List.dropWhile_cons, List.takeWhile_cons, h, Bool.not_false, if_true]
  split <;> simp_all

theorem closeOfBy_cons_stop (stop : Char → Bool) (x : Char) (xs : List Char) (h : stop x = true) :
    closeOfBy stop (x :: xs) = if x = ']' ∧ xs.head? = some ']' then some ([], xs.tail) else none := by
  unfold closeOfBy
  simp only [List.dropWhile_cons, List.takeWhile_cons, h, Bool.not_true, Bool.false_eq_true, if_false]
  split
  · rename_i tl heq
    simp only [List.cons.injEq] at heq
    obtain ⟨rfl, rfl⟩ := heq
    simp
  · rename_i hne
    split
    · rename_i hc
      obtain ⟨rfl, hh⟩ := hc
      match xs, hh with
      | y :: ys, hh =>
        simp only [List.head?_cons, Option.some.injEq] at hh
        subst hh
        exact absurd rfl (hne ys)
    · rfl

theorem closeOfBy_append_eval (body h : List Char) (hb : ∀ c ∈ body, stopEval c = false) :
    closeOfBy stopEval (body ++ ']' :: ']' :: h) = some (body, h) := by
  induction body with
  | nil => rw [List.nil_append, closeOfBy_cons_stop _ _ _ (by decide)]; simp
  | cons x b ih =>
    rw [List.cons_append, closeOfBy_cons_go _ _ _ (hb x (by simp)), ih (fun c hc => hb c (by simp [hc]))]
    rfl

theorem stopValidate_eq (c : Char) : stopValidate c = (stopEval c || isBrace c) := by
  simp [stopValidate, stopEval, isBrace, Bool.or_assoc]

theorem closeOfBy_none_firstRun : ∀ (rest : List Char), closeOfBy stopValidate rest = none →
    closeOfBy stopEval (rest.takeWhile (fun c => !isBrace c)) = none
  | [], _ => by simp [closeOfBy]
  | x :: xs, h => by
    by_cases hb : isBrace x = true
    · simp [List.takeWhile_cons, hb, closeOfBy]
    · have hb' : isBrace x = false := by simpa using hb
      simp only [List.takeWhile_cons, hb', Bool.not_false, if_true]
      by_cases he : stopEval x = true
      · have hx : x = ']' := by simpa [stopEval] using he
        rw [closeOfBy_cons_stop _ _ _ (by rw [stopValidate_eq, he]; rfl)] at h
        rw [closeOfBy_cons_stop _ _ _ he]
        simp only [hx, true_and] at h ⊢
        split at h
        · cases h
        · rename_i hne
          rw [if_neg]
          intro hh
          apply hne
          match xs, hh with
          | y :: ys, hh =>
            simp only [List.takeWhile_cons] at hh
            split at hh
            · simpa using hh
            · cases hh
      · have he' : stopEval x = false := by simpa using he
        rw [closeOfBy_cons_go _ _ _ (by rw [stopValidate_eq, he', hb']; rfl)] at h
        rw [closeOfBy_cons_go _ _ _ he']
        have : closeOfBy stopValidate xs = none := by
          cases hc : closeOfBy stopValidate xs with
          | none => rfl
          | some _ => rw [hc] at h; cases h
        rw [closeOfBy_none_firstRun xs this]
        rfl

theorem head_takeWhile_notBrace (cs : List Char) (c : Char)
    (h : (cs.takeWhile (fun c => !isBrace c)).head? = some c) : cs.head? = some c := by
  match cs with
  | [] => simp at h
  | x :: xs =>
    simp only [List.takeWhile_cons] at h
    split at h
    · simpa using h
    · cases h

/-- C16: searching the whole template for placeholders that contain no curly bracket finds exactly
the placeholders that evaluation finds in the strings between the curly brackets -/
theorem findAll_runs : ∀ (n : Nat) (cs : List Char), cs.length ≤ n →
    findAll stopValidate cs = (runsOf cs).flatMap (findAll stopEval) := by
  intro n
  induction n with
  | zero =>
    intro cs h
    have : cs = [] := by simpa using h
    subst this; rfl
  | succ n ih =>
    intro cs hn
    match cs with
    | [] => rfl
    | c :: cs' =>
      simp only [List.length_cons, Nat.add_le_add_iff_right] at hn
      obtain ⟨t, ht⟩ := runsOf_eq cs'
      have ih' := ih cs' hn
      rw [ht, List.flatMap_cons] at ih'
      by_cases hb : isBrace c = true
      · have hc : (c == '[' && cs'.head? == some '[') = false := by
          have : c ≠ '[' := by
            intro hc; subst hc; revert hb; decide
          simp [this]
        rw [findAll_cons_plain _ _ _ hc, ih']
        simp only [runsOf, hb, if_true, ht, List.flatMap_cons]
        rfl
      · have hb' : isBrace c = false := by simpa using hb
        have hr : runsOf (c :: cs') = (c :: cs'.takeWhile (fun c => !isBrace c)) :: t := by
          simp only [runsOf, hb', Bool.false_eq_true, if_false, ht]
        rw [hr, List.flatMap_cons]
        by_cases hc : (c == '[' && cs'.head? == some '[') = false
        · rw [findAll_cons_plain _ _ _ hc, ih']
          congr 1
          rw [findAll_cons_plain]
          cases hcc : (c == '[') with
          | false => rfl
          | true =>
            simp only [hcc, Bool.true_and] at hc ⊢
            cases hh : (cs'.takeWhile (fun c => !isBrace c)).head? with
            | none => rfl
            | some y =>
              by_cases hy : y = '['
              · subst hy
                rw [head_takeWhile_notBrace cs' _ hh] at hc
                simp at hc
              · simp [hy]
        · have hc' : (c == '[' && cs'.head? == some '[') = true := by simpa using hc
          simp only [Bool.and_eq_true, beq_iff_eq] at hc'
          obtain ⟨rfl, hh⟩ := hc'
          match cs', hh with
          | x :: rest, hh =>
            simp only [List.head?_cons, Option.some.injEq] at hh
            subst hh
            cases hcl : closeOfBy stopValidate rest with
            | none =>
              rw [findAll_cons_fail _ _ _ (by simpa using hcl), ih']
              congr 1
              have : List.takeWhile (fun c => !isBrace c) ('[' :: rest) = '[' :: rest.takeWhile (fun c => !isBrace c) := by
                simp [List.takeWhile_cons, isBrace]
              rw [this]
              exact (findAll_cons_fail stopEval '[' ('[' :: rest.takeWhile (fun c => !isBrace c))
                (by simpa using closeOfBy_none_firstRun rest hcl)).symm
            | some bt =>
              obtain ⟨body, tail⟩ := bt
              obtain ⟨hrest, hbody⟩ := closeOfBy_some hcl
              rw [findAll_cons_match _ _ _ _ hcl]
              have hlen := closeOfBy_length hcl
              rw [ih tail (by simp at hn; omega)]
              obtain ⟨t2, ht2⟩ := runsOf_eq tail
              -- the first string of the template continues into the first string of the tail
              have hpre : ∀ d ∈ '[' :: '[' :: (body ++ [']', ']']), isBrace d = false := by
                intro d hd
                simp only [List.mem_cons, List.mem_append, List.mem_nil_iff, or_false] at hd
                rcases hd with rfl | rfl | hd | rfl | rfl
                · rfl
                · rfl
                · have := hbody d hd
                  rw [stopValidate_eq] at this
                  simp only [Bool.or_eq_false_iff] at this
                  exact this.2
                · rfl
                · rfl
              have hfull : '[' :: '[' :: rest = ('[' :: '[' :: (body ++ [']', ']'])) ++ tail := by
                rw [hrest]; simp
              have hrun := runsOf_append hpre tail _ tail t2 ht2 rfl
              rw [← hfull, hr] at hrun
              simp only [List.cons.injEq] at hrun
              obtain ⟨h1, h2⟩ := hrun
              rw [h1, h2, ht2, List.flatMap_cons]
              have : ('[' :: '[' :: (body ++ [']', ']'])) ++ List.takeWhile (fun c => !isBrace c) tail
                  = '[' :: '[' :: (body ++ ']' :: ']' :: List.takeWhile (fun c => !isBrace c) tail) := by simp
              rw [this, findAll_cons_match stopEval _ body _ (closeOfBy_append_eval body _ (fun d hd => by
                have := hbody d hd
                rw [stopValidate_eq] at this
                simp only [Bool.or_eq_false_iff] at this
                exact this.1))]
              rfl



theorem isPh_parsePh (b : List Char) : isPh (parsePh b) = true := by
  unfold parsePh; split <;> rfl

theorem filter_pushChar (c : Char) (segs : List Seg) : (pushChar c segs).filter isPh = segs.filter isPh := by
  unfold pushChar
  split <;> simp [isPh]

/-- the placeholders of a scanned string are the matches of the expression, read by `_parse_placeholder` -/
theorem scanF_placeholders : ∀ (n : Nat) (cs : List Char),
    (scanF n cs).filter isPh = (findAllF stopEval n cs).map parsePh
  | 0, _ => rfl
  | _ + 1, [] => rfl
  | n + 1, c :: cs => by
    simp only [scanF, findAllF]
    split
    · cases closeOfBy stopEval cs.tail with
      | none => simp only [filter_pushChar]; exact scanF_placeholders n cs
      | some bt =>
        simp only [List.filter_cons, isPh_parsePh, if_true, List.map_cons, scanF_placeholders n bt.2]
    · simp only [filter_pushChar]; exact scanF_placeholders n cs

theorem scan_placeholders (cs : List Char) : (scan cs).filter isPh = (findAll stopEval cs).map parsePh :=
  scanF_placeholders _ _

def runSegs : Tok → Option (List Seg)
  | .run segs => some segs
  | _ => none

theorem isBrace_iff (c : Char) : isBrace c = true ↔ c = '{' ∨ c = '}' := by simp [isBrace]

theorem tokenizeAux_runs : ∀ (cs acc : List Char),
    (tokenizeAux acc cs).filterMap runSegs =
      match runsOf cs with
      | h :: t => scan (acc.reverse ++ h) :: t.map scan
      | [] => []
  | [], acc => by simp [tokenizeAux, runsOf, runSegs]
  | c :: cs, acc => by
    have ih0 := tokenizeAux_runs cs []
    have ih1 := tokenizeAux_runs cs (c :: acc)
    obtain ⟨t, ht⟩ := runsOf_eq cs
    rw [ht] at ih0 ih1
    simp only [List.reverse_nil, List.nil_append] at ih0
    simp only [tokenizeAux]
    by_cases h1 : c = '{'
    · subst h1
      simp only [runsOf, show isBrace '{' = true from rfl, if_true, ht, beq_self_eq_true, List.filterMap_cons, runSegs, ih0]
      simp
    · by_cases h2 : c = '}'
      · subst h2
        simp only [runsOf, show isBrace '}' = true from rfl, if_true, ht, beq_self_eq_true, List.filterMap_cons, runSegs, ih0,
          show ('}' == '{') = false from rfl, Bool.false_eq_true, if_false]
        simp
      · have hb : isBrace c = false := by
          cases hb : isBrace c with
          | false => rfl
          | true => rcases (isBrace_iff c).mp hb with h | h <;> contradiction
        simp only [beq_iff_eq, h1, h2, if_false, runsOf, hb, Bool.false_eq_true, ht, ih1]
        simp

theorem tokenize_runs (s : String) : (tokenize s).filterMap runSegs = (runsOf s.toList).map scan := by
  have := tokenizeAux_runs s.toList []
  obtain ⟨t, ht⟩ := runsOf_eq s.toList
  rw [ht] at this ⊢
  simpa [tokenize] using this

theorem balanced_tokenizeAux : ∀ (cs acc : List Char) (d : Nat),
    balanced d (tokenizeAux acc cs) = braceBalanced d cs
  | [], acc, d => by simp [tokenizeAux, balanced, braceBalanced]
  | c :: cs, acc, d => by
    simp only [tokenizeAux, braceBalanced]
    split
    · simp only [balanced]; exact balanced_tokenizeAux cs [] (d + 1)
    · split
      · simp only [balanced]
        split
        · rfl
        · exact balanced_tokenizeAux cs [] (d - 1)
      · exact balanced_tokenizeAux cs (c :: acc) d


theorem all_runs (et : EType) : ∀ (toks : List Tok),
    toks.all (tokValid et) = (toks.filterMap runSegs).all (fun segs => segs.all (validSeg et))
  | [] => rfl
  | .run segs :: r => by simp [runSegs, tokValid, all_runs et r]
  | .openScope :: r => by simp [runSegs, tokValid, all_runs et r]
  | .closeScope :: r => by simp [runSegs, tokValid, all_runs et r]

theorem all_filter_isPh (et : EType) : ∀ (segs : List Seg), segs.all (validSeg et) = (segs.filter isPh).all (validSeg et)
  | [] => rfl
  | .text s :: r => by simp [validSeg, isPh, all_filter_isPh et r]
  | .ph f a :: r => by simp [isPh, all_filter_isPh et r]

/-- C16: validation (which searches the whole template) judges exactly the placeholders that
evaluation (which searches each string between curly brackets) will replace -/
theorem validateStr_eq (et : EType) (s : String) : validateStr et s = validate et (tokenize s) := by
  unfold validateStr validate
  rw [all_runs, tokenize_runs, findAll_runs _ _ (Nat.le_refl _)]
  congr 1
  · exact (balanced_tokenizeAux s.toList [] 0).symm
  · simp only [List.all_map, List.all_flatMap]
    congr 1
    funext r
    simp only [Function.comp]
    rw [all_filter_isPh, scan_placeholders, List.all_map]
    rfl


/-! ### nothing is lost: the pieces of a scanned string, written out again, are the string -/


theorem splitOnChar_ne_nil (c : Char) : ∀ cs, splitOnChar c cs ≠ []
  | [] => by simp [splitOnChar]
  | x :: xs => by
    simp only [splitOnChar]
    split
    · simp
    · split <;> simp

theorem intercalate_splitOnChar (c : Char) : ∀ cs, [c].intercalate (splitOnChar c cs) = cs
  | [] => by simp [splitOnChar]
  | x :: xs => by
    have ih := intercalate_splitOnChar c xs
    simp only [splitOnChar]
    by_cases hx : (x == c) = true
    · have : x = c := by simpa using hx
      subst this
      simp only [beq_self_eq_true, if_true]
      rw [List.intercalate_cons_of_ne_nil (splitOnChar_ne_nil x xs), ih]
      rfl
    · simp only [hx, Bool.false_eq_true, if_false]
      cases hs : splitOnChar c xs with
      | nil => exact absurd hs (splitOnChar_ne_nil c xs)
      | cons h t =>
        rw [hs] at ih
        simp only [List.intercalate_cons_cons_left, ih]

theorem splitFirst_some (c : Char) : ∀ cs f a, splitFirst c cs = some (f, a) → cs = f ++ c :: a
  | [], _, _, h => by cases h
  | x :: xs, f, a, h => by
    simp only [splitFirst] at h
    by_cases hx : (x == c) = true
    · have : x = c := by simpa using hx
      subst this
      simp only [beq_self_eq_true, if_true, Option.some.injEq, Prod.mk.injEq] at h
      obtain ⟨rfl, rfl⟩ := h
      rfl
    · simp only [hx, Bool.false_eq_true, if_false] at h
      cases hs : splitFirst c xs with
      | none => rw [hs] at h; cases h
      | some fa =>
        obtain ⟨f', a'⟩ := fa
        rw [hs] at h
        simp only [Option.some.injEq, Prod.mk.injEq] at h
        obtain ⟨rfl, rfl⟩ := h
        rw [splitFirst_some c xs f' a' hs]
        rfl

theorem toList_args (a : List Char) : (String.intercalate "," (argsOf a)).toList = a := by
  unfold argsOf
  split
  · rename_i h
    have : a = [] := by simpa using h
    subst this; rfl
  · simp only [String.toList_intercalate, rawArgs, List.map_map]
    have : (String.toList ∘ String.ofList) = id := by funext l; simp [String.toList_ofList]
    rw [this, List.map_id]
    exact intercalate_splitOnChar ',' a

theorem segText_parsePh (body : List Char) : (segText (parsePh body)).toList = '[' :: '[' :: (body ++ [']', ']']) := by
  unfold parsePh
  cases hs : splitFirst ':' body with
  | none =>
    simp only [segText, String.toList_append, toList_args]
    rfl
  | some fa =>
    obtain ⟨f, a⟩ := fa
    simp only [segText, String.toList_append, toList_args, String.toList_ofList]
    rw [splitFirst_some ':' body f a hs]
    simp

theorem flatMap_pushChar (c : Char) (segs : List Seg) :
    (pushChar c segs).flatMap (fun s => (segText s).toList) = c :: segs.flatMap (fun s => (segText s).toList) := by
  unfold pushChar
  split <;> simp [segText, String.toList_append]

theorem scanF_lossless : ∀ (n : Nat) (cs : List Char), cs.length ≤ n →
    (scanF n cs).flatMap (fun s => (segText s).toList) = cs
  | 0, cs, h => by
    have : cs = [] := by simpa using h
    subst this; rfl
  | _ + 1, [], _ => rfl
  | n + 1, c :: cs, h => by
    simp only [List.length_cons, Nat.add_le_add_iff_right] at h
    simp only [scanF]
    split
    · rename_i hc
      simp only [Bool.and_eq_true, beq_iff_eq] at hc
      obtain ⟨rfl, hh⟩ := hc
      cases hcl : closeOfBy stopEval cs.tail with
      | none => simp only [flatMap_pushChar, scanF_lossless n cs h]
      | some bt =>
        obtain ⟨body, tail⟩ := bt
        obtain ⟨hrest, _⟩ := closeOfBy_some hcl
        have hlen := closeOfBy_length hcl
        have hcs : cs = '[' :: cs.tail := by
          match cs, hh with
          | x :: xs, hh => simp only [List.head?_cons, Option.some.injEq] at hh; subst hh; rfl
        simp only [List.flatMap_cons, segText_parsePh]
        rw [scanF_lossless n tail (by have : cs.tail.length ≤ cs.length := by simp
                                      omega)]
        conv => rhs; rw [hcs, hrest]
        simp
    · simp only [flatMap_pushChar, scanF_lossless n cs h]

/-- C16: scanning loses nothing — text and placeholders, written out one after the other, are the string -/
theorem scan_lossless (cs : List Char) : (scan cs).flatMap (fun s => (segText s).toList) = cs :=
  scanF_lossless _ _ (Nat.le_refl _)


end Edxml.Tpl
