/-
Lemmas about the reasoning pass of concept mining (`EdxmlModel/Miner/Search.lean`): the invariant
every accepted execution keeps, the frame of visited nodes, and the bound that makes the processed
nodes come out in order of decreasing confidence.
-/
import EdxmlModel.Miner.Search
import Mathlib.Tactic.Linarith
import Mathlib.Tactic.Positivity
import Mathlib.Data.List.Perm.Subperm
namespace EdxmlProps.Search
open Edxml Edxml.Miner

def U (x : Rat) : Prop := 0 ≤ x ∧ x ≤ 1

/-- the graph and the considered edges carry confidences in [0,1] -/
structure GraphOk (g : SGraph) : Prop where
  conf : ∀ k, U (g.conf k)
  taint : ∀ k, U (g.taint k)

def EdgesOk (es : List SEdge) : Prop := ∀ e ∈ es, U e.conf

def TraceOk (tr : Trace) : Prop := ∀ p ∈ tr, EdgesOk p.2

/-- what holds before and after every iteration of the loop -/
structure Inv (min : Rat) (seed : Nat) (s : SState) : Prop where
  seedVisited : seed ∈ s.visited
  seedOne : s.sc seed = some 1
  unit : ∀ k c, s.sc k = some c → U c
  aboveMin : ∀ k c, k ≠ seed → s.sc k = some c → min < c
  disjoint : ∀ k ∈ s.touched, k ∉ s.visited

theorem inv_init (min : Rat) (seed : Nat) : Inv min seed (SState.init seed) := by
  refine ⟨by simp [SState.init], by simp [SState.init], ?_, ?_, by simp [SState.init]⟩
  · intro k c h
    simp only [SState.init] at h
    split at h
    · cases h; exact ⟨by norm_num, by norm_num⟩
    · cases h
  · intro k c hk h
    simp only [SState.init] at h
    rw [if_neg hk] at h
    cases h

theorem scD_unit {min : Rat} {seed : Nat} {s : SState} (h : Inv min seed s) (n : Nat) : U (s.scD n) := by
  unfold SState.scD
  cases hn : s.sc n with
  | none => exact ⟨by simp, by simp⟩
  | some c => simpa using h.unit n c hn

theorem dijkstra_bounds {a e t c : Rat} (ha : U a) (he : U e) (ht : U t) (hc : U c) :
    0 ≤ dijkstra a e t c ∧ dijkstra a e t c ≤ a := by
  unfold dijkstra
  obtain ⟨a0, a1⟩ := ha
  obtain ⟨e0, e1⟩ := he
  obtain ⟨t0, t1⟩ := ht
  obtain ⟨c0, c1⟩ := hc
  have h1 : 0 ≤ 1 - t := by linarith
  have h2 : 1 - t ≤ 1 := by linarith
  have p1 : 0 ≤ a * e := mul_nonneg a0 e0
  have p2 : a * e ≤ a := by nlinarith
  have p3 : 0 ≤ a * e * (1 - t) := mul_nonneg p1 h1
  have p4 : a * e * (1 - t) ≤ a * e := by nlinarith
  have p5 : 0 ≤ a * e * (1 - t) * c := mul_nonneg p3 c0
  have p6 : a * e * (1 - t) * c ≤ a * e * (1 - t) := by nlinarith
  exact ⟨p5, by linarith⟩

/-! ### one relaxation -/

theorem relax_visited (g : SGraph) (min : Rat) (src : Nat) (s : SState) (e : SEdge) :
    (relax g min src s e).visited = s.visited := by
  unfold relax
  split
  · rfl
  · simp only
    split <;> rfl

theorem relax_sc_of_visited (g : SGraph) (min : Rat) (src : Nat) (s : SState) (e : SEdge) (k : Nat)
    (hk : k ∈ s.visited) : (relax g min src s e).sc k = s.sc k := by
  unfold relax
  split
  · rfl
  · rename_i hv
    simp only
    split
    · have : k ≠ e.tgt := by
        intro h
        subst h
        exact hv (by simpa using hk)
      simp [this]
    · rfl

theorem relax_inv {g : SGraph} {min : Rat} {seed src : Nat} {s : SState} {e : SEdge}
    (hg : GraphOk g) (he : U e.conf) (h : Inv min seed s) : Inv min seed (relax g min src s e) := by
  unfold relax
  split
  · exact h
  · rename_i hv
    simp only
    split
    · rename_i hc
      have hne : e.tgt ≠ seed := by
        intro h'
        apply hv
        rw [h']
        simpa using h.seedVisited
      have hb := dijkstra_bounds (scD_unit h src) he (hg.taint e.tgt) (hg.conf e.tgt)
      have hsrc := (scD_unit h src).2
      refine ⟨h.seedVisited, ?_, ?_, ?_, ?_⟩
      · simp only
        rw [if_neg (Ne.symm hne)]
        exact h.seedOne
      · intro k c hk
        simp only at hk
        split at hk
        · cases hk
          exact ⟨hb.1, le_trans hb.2 hsrc⟩
        · exact h.unit k c hk
      · intro k c hks hk
        simp only at hk
        split at hk
        · cases hk
          exact hc.1
        · exact h.aboveMin k c hks hk
      · intro k hk
        simp only at hk
        split at hk
        · exact h.disjoint k hk
        · rcases List.mem_cons.mp hk with rfl | hk'
          · simpa using hv
          · exact h.disjoint k hk'
    · exact h

theorem foldl_relax_inv {g : SGraph} {min : Rat} {seed src : Nat} (hg : GraphOk g) :
    ∀ (es : List SEdge) (s : SState), EdgesOk es → Inv min seed s → Inv min seed (es.foldl (relax g min src) s)
  | [], _, _, h => h
  | e :: es, s, he, h => by
    simp only [List.foldl_cons]
    exact foldl_relax_inv hg es _ (fun x hx => he x (by simp [hx])) (relax_inv hg (he e (by simp)) h)

theorem foldl_relax_visited (g : SGraph) (min : Rat) (src : Nat) :
    ∀ (es : List SEdge) (s : SState), (es.foldl (relax g min src) s).visited = s.visited
  | [], _ => rfl
  | e :: es, s => by
    simp only [List.foldl_cons]
    rw [foldl_relax_visited g min src es, relax_visited]

theorem foldl_relax_sc_of_visited (g : SGraph) (min : Rat) (src : Nat) (k : Nat) :
    ∀ (es : List SEdge) (s : SState), k ∈ s.visited → (es.foldl (relax g min src) s).sc k = s.sc k
  | [], _, _ => rfl
  | e :: es, s, hk => by
    simp only [List.foldl_cons]
    rw [foldl_relax_sc_of_visited g min src k es _ (by rw [relax_visited]; exact hk), relax_sc_of_visited g min src s e k hk]

/-! ### one iteration -/

theorem visit_inv {g : SGraph} {min : Rat} {seed n : Nat} {s : SState} {es : List SEdge}
    (hg : GraphOk g) (he : EdgesOk es) (h : Inv min seed s) : Inv min seed (visit g min s n es) := by
  have h' := foldl_relax_inv (src := n) hg es s he h
  unfold visit
  refine ⟨?_, h'.seedOne, h'.unit, h'.aboveMin, ?_⟩
  · simp only
    split
    · exact h'.seedVisited
    · exact List.mem_cons_of_mem _ h'.seedVisited
  · intro k hk
    simp only at hk ⊢
    have hk' := List.mem_filter.mp hk
    have hkn : k ≠ n := by simpa using hk'.2
    split
    · exact h'.disjoint k hk'.1
    · intro hmem
      rcases List.mem_cons.mp hmem with rfl | hm
      · exact hkn rfl
      · exact h'.disjoint k hk'.1 hm

theorem visit_visited_mem (g : SGraph) (min : Rat) (s : SState) (n : Nat) (es : List SEdge) :
    n ∈ (visit g min s n es).visited := by
  unfold visit
  simp only
  split
  · rename_i h; simpa using h
  · simp

theorem visit_visited_sub (g : SGraph) (min : Rat) (s : SState) (n : Nat) (es : List SEdge) (k : Nat)
    (hk : k ∈ s.visited) : k ∈ (visit g min s n es).visited := by
  unfold visit
  simp only
  have : k ∈ (es.foldl (relax g min n) s).visited := by rw [foldl_relax_visited]; exact hk
  split
  · exact this
  · exact List.mem_cons_of_mem _ this

theorem visit_sc_of_visited (g : SGraph) (min : Rat) (s : SState) (n : Nat) (es : List SEdge) (k : Nat)
    (hk : k ∈ s.visited) : (visit g min s n es).sc k = s.sc k := by
  unfold visit
  simp only
  exact foldl_relax_sc_of_visited g min n k es s hk

theorem isMax_mem {s : SState} {n : Nat} (h : isMax s n = true) : n ∈ s.touched := by
  unfold isMax at h
  simp only [Bool.and_eq_true] at h
  simpa using h.1

theorem isMax_le {s : SState} {n : Nat} (h : isMax s n = true) : ∀ m ∈ s.touched, s.scD m ≤ s.scD n := by
  unfold isMax at h
  simp only [Bool.and_eq_true, List.all_eq_true, decide_eq_true_eq] at h
  exact h.2

/-! ### the remaining iterations -/

theorem steps_spec {g : SGraph} {min : Rat} {md seed : Nat} (hg : GraphOk g) :
    ∀ (tr : Trace) (s s' : SState) (cs : List Rat), TraceOk tr → Inv min seed s →
      steps g min md s tr = some (s', cs) →
      Inv min seed s' ∧ (∀ k ∈ s.visited, s'.sc k = s.sc k) ∧ (∀ k ∈ s.visited, k ∈ s'.visited) ∧
      (tr.map Prod.fst).Nodup ∧ (∀ n ∈ tr.map Prod.fst, n ∉ s.visited) ∧
      (∀ n ∈ tr.map Prod.fst, n ∈ s'.visited) ∧ cs.length = tr.length
  | [], s, s', cs, _, h, hs => by
    simp only [steps] at hs
    split at hs
    · cases hs
      exact ⟨h, fun _ _ => rfl, fun _ hk => hk, by simp, by simp, by simp, rfl⟩
    · cases hs
  | (n, es) :: rest, s, s', cs, ht, h, hs => by
    simp only [steps] at hs
    split at hs
    · rename_i hc
      simp only [Bool.and_eq_true] at hc
      cases hrec : steps g min md (visit g min s n es) rest with
      | none => rw [hrec] at hs; cases hs
      | some r =>
        obtain ⟨s2, cs2⟩ := r
        rw [hrec] at hs
        cases hs
        have hv := visit_inv (n := n) hg (ht (n, es) (by simp)) h
        obtain ⟨i1, i2, i3, i4, i5, i6, i7⟩ :=
          steps_spec hg rest _ _ _ (fun p hp => ht p (by simp [hp])) hv hrec
        have hn : n ∉ s.visited := h.disjoint n (isMax_mem hc.1)
        refine ⟨i1, ?_, ?_, ?_, ?_, ?_, by simp [i7]⟩
        · intro k hk
          rw [i2 k (visit_visited_sub g min s n es k hk), visit_sc_of_visited g min s n es k hk]
        · intro k hk
          exact i3 k (visit_visited_sub g min s n es k hk)
        · simp only [List.map_cons, List.nodup_cons]
          exact ⟨fun hmem => i5 n hmem (visit_visited_mem g min s n es), i4⟩
        · intro m hm
          simp only [List.map_cons, List.mem_cons] at hm
          rcases hm with rfl | hm
          · exact hn
          · intro hv'
            exact i5 m hm (visit_visited_sub g min s n es m hv')
        · intro m hm
          simp only [List.map_cons, List.mem_cons] at hm
          rcases hm with rfl | hm
          · exact i3 _ (visit_visited_mem g min s _ es)
          · exact i6 m hm
    · cases hs

/-! ### processed nodes come in order of decreasing confidence -/

/-- every touched node, and the node being processed, is at most `b` confident -/
def Below (b : Rat) (src : Nat) (s : SState) : Prop := s.scD src ≤ b ∧ ∀ m ∈ s.touched, s.scD m ≤ b

theorem relax_below {g : SGraph} {min b : Rat} {seed src : Nat} {s : SState} {e : SEdge}
    (hg : GraphOk g) (he : U e.conf) (h : Inv min seed s) (hb : Below b src s) :
    Below b src (relax g min src s e) := by
  unfold relax
  split
  · exact hb
  · simp only
    split
    · have hd := dijkstra_bounds (scD_unit h src) he (hg.taint e.tgt) (hg.conf e.tgt)
      have hle : dijkstra (s.scD src) e.conf (g.taint e.tgt) (g.conf e.tgt) ≤ b := le_trans hd.2 hb.1
      have key : ∀ m, s.scD m ≤ b →
          ({ s with sc := fun k => if k = e.tgt then some (dijkstra (s.scD src) e.conf (g.taint e.tgt) (g.conf e.tgt)) else s.sc k,
                    depth := fun k => if k = e.tgt then s.depth src + 1 else s.depth k,
                    touched := if s.touched.contains e.tgt then s.touched else e.tgt :: s.touched } : SState).scD m ≤ b := by
        intro m hm
        have hle' := hle
        unfold SState.scD at hle' hm ⊢
        simp only
        split
        · simpa using hle'
        · exact hm
      constructor
      · exact key src hb.1
      · intro m hm
        simp only at hm
        by_cases hmt : m = e.tgt
        · subst hmt
          have hle' := hle
          unfold SState.scD at hle' ⊢
          simpa using hle'
        · apply key m
          split at hm
          · exact hb.2 m hm
          · rcases List.mem_cons.mp hm with rfl | hm'
            · exact absurd rfl hmt
            · exact hb.2 m hm'
    · exact hb

theorem foldl_relax_below {g : SGraph} {min b : Rat} {seed src : Nat} (hg : GraphOk g) :
    ∀ (es : List SEdge) (s : SState), EdgesOk es → Inv min seed s → Below b src s →
      Below b src (es.foldl (relax g min src) s)
  | [], _, _, _, hb => hb
  | e :: es, s, he, h, hb => by
    simp only [List.foldl_cons]
    exact foldl_relax_below hg es _ (fun x hx => he x (by simp [hx])) (relax_inv hg (he e (by simp)) h)
      (relax_below hg (he e (by simp)) h hb)

theorem visit_below {g : SGraph} {min b : Rat} {seed n : Nat} {s : SState} {es : List SEdge}
    (hg : GraphOk g) (he : EdgesOk es) (h : Inv min seed s) (hb : Below b n s) :
    ∀ m ∈ (visit g min s n es).touched, (visit g min s n es).scD m ≤ b := by
  have h' := foldl_relax_below (src := n) hg es s he h hb
  intro m hm
  unfold visit at hm ⊢
  simp only at hm
  exact h'.2 m (List.mem_filter.mp hm).1

theorem steps_sorted {g : SGraph} {min : Rat} {md seed : Nat} (hg : GraphOk g) :
    ∀ (tr : Trace) (s s' : SState) (cs : List Rat) (b : Rat), TraceOk tr → Inv min seed s →
      (∀ m ∈ s.touched, s.scD m ≤ b) → steps g min md s tr = some (s', cs) →
      cs.Pairwise (· ≥ ·) ∧ ∀ c ∈ cs, c ≤ b
  | [], s, s', cs, b, _, _, _, hs => by
    simp only [steps] at hs
    split at hs
    · cases hs; simp
    · cases hs
  | (n, es) :: rest, s, s', cs, b, ht, h, hb, hs => by
    simp only [steps] at hs
    split at hs
    · rename_i hc
      simp only [Bool.and_eq_true] at hc
      cases hrec : steps g min md (visit g min s n es) rest with
      | none => rw [hrec] at hs; cases hs
      | some r =>
        obtain ⟨s2, cs2⟩ := r
        rw [hrec] at hs
        cases hs
        have he := ht (n, es) (by simp)
        have hv := visit_inv (n := n) hg he h
        have hbelow : Below (s.scD n) n s := ⟨le_refl _, isMax_le hc.1⟩
        have := steps_sorted hg rest _ _ _ (s.scD n) (fun p hp => ht p (by simp [hp])) hv
          (visit_below hg he h hbelow) hrec
        refine ⟨List.pairwise_cons.mpr ⟨fun c hc' => this.2 c hc', this.1⟩, ?_⟩
        intro c hc'
        rcases List.mem_cons.mp hc' with rfl | hc''
        · exact hb n (isMax_mem hc.1)
        · exact le_trans (this.2 c hc'') (hb n (isMax_mem hc.1))
    · cases hs

/-! ### the tolerant checker with no slack is the exact algorithm -/

theorem relaxC_zero (g : SGraph) (min : Rat) (src : Nat) (s s' : SState) (er : SEdge × Option Rat)
    (h : relaxC g min 0 src s er = some s') : s' = relax g min src s er.1 := by
  obtain ⟨e, r⟩ := er
  unfold relaxC at h
  unfold relax
  simp only at h ⊢
  by_cases hv : s.visited.contains e.tgt = true
  · rw [if_pos hv] at h ⊢
    cases r with
    | none => simpa using h.symm
    | some cf => simp at h
  · rw [if_neg hv] at h ⊢
    cases r with
    | some cf =>
      simp only [sub_zero, add_zero] at h
      split at h
      · rename_i hc
        obtain ⟨h1, h2, h3, h4⟩ := hc
        have hcf : cf = dijkstra (s.scD src) e.conf (g.taint e.tgt) (g.conf e.tgt) := le_antisymm h2 h1
        subst hcf
        rw [if_pos ⟨h3, h4⟩]
        exact (Option.some.inj h).symm
      · cases h
    | none =>
      simp only [add_zero] at h
      split at h
      · rename_i hc
        have : ¬ (min < dijkstra (s.scD src) e.conf (g.taint e.tgt) (g.conf e.tgt) ∧
            s.scD e.tgt < dijkstra (s.scD src) e.conf (g.taint e.tgt) (g.conf e.tgt)) := by
          rintro ⟨a, b⟩
          rcases hc with hc | hc
          · exact absurd a (not_lt.mpr hc)
          · exact absurd b (not_lt.mpr hc)
        rw [if_neg this]
        exact (Option.some.inj h).symm
      · cases h

theorem foldC_zero (g : SGraph) (min : Rat) (src : Nat) :
    ∀ (es : List (SEdge × Option Rat)) (s s' : SState), foldC g min 0 src s es = some s' →
      s' = (es.map (·.1)).foldl (relax g min src) s
  | [], s, s', h => by simp only [foldC] at h; simpa using h.symm
  | er :: rest, s, s', h => by
    simp only [foldC] at h
    cases h1 : relaxC g min 0 src s er with
    | none => rw [h1] at h; cases h
    | some s1 =>
      rw [h1] at h
      have := relaxC_zero g min src s s1 er h1
      subst this
      simpa using foldC_zero g min src rest _ _ h

theorem visitC_zero (g : SGraph) (min : Rat) (s s' : SState) (n : Nat) (es : List (SEdge × Option Rat))
    (h : visitC g min 0 s n es = some s') : s' = visit g min s n (es.map (·.1)) := by
  unfold visitC at h
  cases h1 : foldC g min 0 n s es with
  | none => rw [h1] at h; cases h
  | some s1 =>
    rw [h1] at h
    have := foldC_zero g min n es s s1 h1
    subst this
    exact (Option.some.inj h).symm

theorem stepsC_zero (g : SGraph) (min : Rat) (md : Nat) :
    ∀ (tr : ATrace) (s s' : SState), stepsC g min 0 md s tr = some s' →
      ∃ cs, steps g min md s tr.erase = some (s', cs)
  | [], s, s', h => by
    simp only [stepsC] at h
    split at h
    · rename_i hc
      cases h
      exact ⟨[], by simp [ATrace.erase, steps, hc]⟩
    · cases h
  | (n, es) :: rest, s, s', h => by
    simp only [stepsC] at h
    split at h
    · rename_i hc
      cases h1 : visitC g min 0 s n es with
      | none => rw [h1] at h; cases h
      | some s1 =>
        rw [h1] at h
        have := visitC_zero g min s s1 n es h1
        subst this
        obtain ⟨cs, hcs⟩ := stepsC_zero g min md rest _ _ h
        refine ⟨s.scD n :: cs, ?_⟩
        have : ATrace.erase ((n, es) :: rest) = (n, es.map (·.1)) :: ATrace.erase rest := by simp [ATrace.erase]
        rw [this]
        simp only [steps, hc, if_true]
        rw [hcs]
    · cases h

theorem runC_zero (g : SGraph) (min : Rat) (md seed : Nat) (tr : ATrace) (s : SState)
    (h : runC g min 0 md seed tr = some s) : ∃ cs, run g min md seed tr.erase = some (s, cs) := by
  cases tr with
  | nil =>
    simp only [runC] at h
    split at h
    · cases h
    · rename_i hc
      cases h
      exact ⟨[], by simp [ATrace.erase, run, hc]⟩
  | cons p rest =>
    obtain ⟨n, es⟩ := p
    simp only [runC] at h
    split at h
    · rename_i hc
      cases h1 : visitC g min 0 (SState.init seed) seed es with
      | none => rw [h1] at h; cases h
      | some s1 =>
        rw [h1] at h
        have := visitC_zero g min _ s1 seed es h1
        subst this
        obtain ⟨cs, hcs⟩ := stepsC_zero g min md rest _ _ h
        refine ⟨1 :: cs, ?_⟩
        have : ATrace.erase ((n, es) :: rest) = (n, es.map (·.1)) :: ATrace.erase rest := by simp [ATrace.erase]
        rw [this]
        simp only [run, hc, and_self, if_true]
        rw [hcs]
    · cases h

/-! ### the checker with the scope filter refines the checker without it -/

theorem stepsC2_sound (g : SGraph) (min eps : Rat) (md : Nat) :
    ∀ (tr : FTrace) (s : SState) (q : Equivs) (s' : SState) (q' : Equivs),
      stepsC2 g min eps md s q tr = some (s', q') → stepsC g min eps md s tr.proj = some s'
  | [], s, q, s', q', h => by
    simp only [stepsC2, Option.map_eq_some_iff, Prod.mk.injEq] at h
    obtain ⟨a, ha, rfl, _⟩ := h
    simpa [FTrace.proj] using ha
  | (n, es) :: rest, s, q, s', q', h => by
    simp only [stepsC2] at h
    split at h
    · rename_i hc
      simp only [Bool.and_eq_true] at hc
      cases hv : visitC g min eps s n (proj es) with
      | none => rw [hv] at h; cases h
      | some s1 =>
        rw [hv] at h
        have ih := stepsC2_sound g min eps md rest s1 _ s' q' h
        have : FTrace.proj ((n, es) :: rest) = (n, proj es) :: FTrace.proj rest := by simp [FTrace.proj]
        rw [this]
        simp only [stepsC, hc.1.1, hc.1.2, Bool.and_self, if_true, hv]
        exact ih
    · cases h

theorem runC2_sound (g : SGraph) (min eps : Rat) (md seed : Nat) (sc : String) (tr : FTrace) (s : SState) (q : Equivs)
    (h : runC2 g min eps md seed sc tr = some (s, q)) : runC g min eps md seed tr.proj = some s := by
  cases tr with
  | nil =>
    simp only [runC2, Option.map_eq_some_iff, Prod.mk.injEq] at h
    obtain ⟨a, ha, rfl, _⟩ := h
    simpa [FTrace.proj] using ha
  | cons p rest =>
    obtain ⟨n, es⟩ := p
    simp only [runC2] at h
    split at h
    · rename_i hc
      cases hv : visitC g min eps (SState.init seed) seed (proj es) with
      | none => rw [hv] at h; cases h
      | some s1 =>
        rw [hv] at h
        have := stepsC2_sound g min eps md rest s1 _ s q h
        have hp : FTrace.proj ((n, es) :: rest) = (n, proj es) :: FTrace.proj rest := by simp [FTrace.proj]
        rw [hp]
        simp only [runC, hc.1, hc.2.1, and_self, if_true, hv]
        exact this
    · cases h

/-- what the scope check demands of the edges of one iteration -/
theorem scopeOk_kinds (q : Equivs) (min eps scSelf : Rat) (es : List FEdge) (h : scopeOk q min eps scSelf es = true) :
    ∀ f ∈ es, (f.edge.kind = .inter → f.considered = false) ∧
      (f.edge.kind = .toHub ∨ f.edge.kind = .intra → f.considered = true) ∧
      (f.considered = false → f.assigned = none) := by
  intro f hf
  unfold scopeOk at h
  have := List.all_eq_true.mp h f hf
  simp only [Bool.and_eq_true, Bool.or_eq_true, Option.isNone_iff_eq_none] at this
  obtain ⟨h1, h2⟩ := this
  refine ⟨?_, ?_, ?_⟩
  · intro hk
    simp only [admissible, hk] at h1
    simpa using h1.symm
  · rintro (hk | hk) <;> simp only [admissible, hk] at h1 <;> simpa using h1.symm
  · intro hc
    rcases h2 with h2 | h2
    · rw [hc] at h2; cases h2
    · exact h2

end EdxmlProps.Search
