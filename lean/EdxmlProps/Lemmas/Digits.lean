/-
Decimal numerals: `str(n)` as a specification and the recognisers of the generated patterns
`([1-9]\d*)|0` and `(-?[1-9]\d*)|0`.
-/
import EdxmlModel.DataType.Gate
namespace Edxml.Gate

theorem charLe_iff (a b : Char) : a ≤ b ↔ a.toNat ≤ b.toNat := by
  rw [Char.le_def]; exact UInt32.le_iff_toNat_le

theorem isDigit_iff (c : Char) : isDigit c = true ↔ 48 ≤ c.toNat ∧ c.toNat ≤ 57 := by
  unfold isDigit
  simp only [Bool.and_eq_true, decide_eq_true_eq, charLe_iff]
  exact Iff.rfl

theorem digitChar_toNat {d : Nat} (h : d < 10) : (digitChar d).toNat = 48 + d := by
  match d, h with
  | 0, _ | 1, _ | 2, _ | 3, _ | 4, _ | 5, _ | 6, _ | 7, _ | 8, _ | 9, _ => rfl
  | n + 10, h => omega

theorem eq_digitChar {c : Char} (h : isDigit c = true) : c = digitChar (c.toNat - 48) := by
  have hc := (isDigit_iff c).mp h
  apply Char.toNat_inj.mp
  rw [digitChar_toNat (by omega)]; omega

theorem isDigit_digitChar {d : Nat} (h : d < 10) : isDigit (digitChar d) = true := by
  rw [isDigit_iff, digitChar_toNat h]; omega

/-- a non-empty digit string without zero padding that is not "0" -/
def PosDigits (cs : List Char) : Prop :=
  ∃ c r, cs = c :: r ∧ 49 ≤ c.toNat ∧ c.toNat ≤ 57 ∧ r.all isDigit = true

theorem natVal_append (l : List Char) (c : Char) : natVal (l ++ [c]) = 10 * natVal l + (c.toNat - 48) := by
  unfold natVal; rw [List.foldl_append]; rfl

theorem canonNat_iff (cs : List Char) : canonNat cs = true ↔ cs = ['0'] ∨ PosDigits cs := by
  unfold PosDigits
  constructor
  · intro h
    unfold canonNat at h
    split at h
    · exact Or.inl rfl
    · rename_i c r _
      simp only [Bool.and_eq_true, decide_eq_true_eq, charLe_iff] at h
      exact Or.inr ⟨c, r, rfl, h.1.1, h.1.2, h.2⟩
    · cases h
  · rintro (rfl | ⟨c, r, rfl, h1, h2, h3⟩)
    · rfl
    · unfold canonNat
      split
      · rfl
      · rename_i c' r' _ heq
        cases heq
        simp only [Bool.and_eq_true, decide_eq_true_eq, charLe_iff]
        exact ⟨⟨h1, h2⟩, h3⟩
      · rename_i heq; cases heq

theorem posDigits_snoc {p : List Char} {d : Char} (hp : PosDigits p) (hd : isDigit d = true) : PosDigits (p ++ [d]) := by
  obtain ⟨c, r, rfl, h1, h2, h3⟩ := hp
  exact ⟨c, r ++ [d], rfl, h1, h2, by simp [List.all_append, h3, hd]⟩

theorem render_snoc {p : List Char} {d : Char} (hr : renderNat (natVal p) = p) (hpos : 1 ≤ natVal p)
    (hd : isDigit d = true) : renderNat (natVal (p ++ [d])) = p ++ [d] ∧ 1 ≤ natVal (p ++ [d]) := by
  have hdv := (isDigit_iff d).mp hd
  rw [natVal_append]
  refine ⟨?_, by omega⟩
  rw [renderNat, if_neg (by omega)]
  have e1 : (10 * natVal p + (d.toNat - 48)) / 10 = natVal p := by omega
  have e2 : (10 * natVal p + (d.toNat - 48)) % 10 = d.toNat - 48 := by omega
  rw [e1, e2, hr, ← eq_digitChar hd]

theorem render_append : ∀ (r p : List Char), renderNat (natVal p) = p → 1 ≤ natVal p → r.all isDigit = true →
    renderNat (natVal (p ++ r)) = p ++ r ∧ 1 ≤ natVal (p ++ r)
  | [], p, hr, hpos, _ => by simpa using ⟨hr, hpos⟩
  | d :: r, p, hr, hpos, hall => by
    simp only [List.all_cons, Bool.and_eq_true] at hall
    have := render_snoc hr hpos hall.1
    have ih := render_append r (p ++ [d]) this.1 this.2 hall.2
    simpa using ih

theorem render_natVal_pos {cs : List Char} (h : PosDigits cs) : renderNat (natVal cs) = cs ∧ 1 ≤ natVal cs := by
  obtain ⟨c, r, rfl, h1, h2, h3⟩ := h
  have base : renderNat (natVal [c]) = [c] ∧ 1 ≤ natVal [c] := by
    have hv : natVal [c] = c.toNat - 48 := by simp [natVal]
    rw [hv]
    refine ⟨?_, by omega⟩
    rw [renderNat, if_pos (by omega)]
    rw [← eq_digitChar ((isDigit_iff c).mpr ⟨by omega, h2⟩)]
  exact render_append r [c] base.1 base.2 h3

/-- a canonical numeral is the rendering of its value -/
theorem render_natVal {cs : List Char} (h : canonNat cs = true) : renderNat (natVal cs) = cs := by
  rcases (canonNat_iff cs).mp h with rfl | hp
  · have : natVal ['0'] = 0 := rfl
    rw [this, renderNat, if_pos (by omega)]; rfl
  · exact (render_natVal_pos hp).1

theorem natVal_render (n : Nat) : natVal (renderNat n) = n := by
  induction n using Nat.strongRecOn with
  | _ n ih =>
    rw [renderNat]
    split
    · rename_i h
      simp only [natVal, List.foldl_cons, List.foldl_nil]
      rw [digitChar_toNat h]; omega
    · rename_i h
      rw [natVal_append, ih (n / 10) (by omega), digitChar_toNat (by omega)]; omega

theorem canonNat_render (n : Nat) : canonNat (renderNat n) = true := by
  induction n using Nat.strongRecOn with
  | _ n ih =>
    rw [canonNat_iff, renderNat]
    split
    · rename_i h
      by_cases h0 : n = 0
      · subst h0; exact Or.inl rfl
      · exact Or.inr ⟨digitChar n, [], rfl, by rw [digitChar_toNat h]; omega, by rw [digitChar_toNat h]; omega, rfl⟩
    · rename_i h
      right
      have hq := (canonNat_iff _).mp (ih (n / 10) (by omega))
      rcases hq with h0 | hp
      · have := natVal_render (n / 10)
        rw [h0] at this
        have : natVal ['0'] = 0 := rfl
        omega
      · exact posDigits_snoc hp (isDigit_digitChar (by omega))

/-- `([1-9]\d*)|0` accepts exactly the canonical renderings of the natural numbers. -/
theorem canonNat_iff_render (cs : List Char) : canonNat cs = true ↔ ∃ n, cs = renderNat n :=
  ⟨fun h => ⟨natVal cs, (render_natVal h).symm⟩, fun ⟨n, h⟩ => h ▸ canonNat_render n⟩

theorem posDigits_render {n : Nat} (h : 1 ≤ n) : PosDigits (renderNat n) := by
  rcases (canonNat_iff _).mp (canonNat_render n) with h0 | hp
  · have := natVal_render n
    rw [h0] at this
    have : natVal ['0'] = 0 := rfl
    omega
  · exact hp

theorem not_minus_of_canonNat {cs : List Char} (h : canonNat cs = true) : ∀ r, cs ≠ '-' :: r := by
  intro r e
  rcases (canonNat_iff cs).mp h with h0 | ⟨c, r', hc, h1, _, _⟩
  · rw [h0] at e; cases e
  · rw [hc] at e; cases e
    have : ('-' : Char).toNat = 45 := rfl
    omega

theorem intVal_of_canonNat {cs : List Char} (h : canonNat cs = true) : intVal cs = (natVal cs : Int) := by
  unfold intVal
  split
  · rename_i r; exact absurd rfl (not_minus_of_canonNat h r)
  · rfl

theorem canonInt_of_canonNat {cs : List Char} (h : canonNat cs = true) : canonInt cs = true := by
  unfold canonInt
  split
  · rename_i c r; exact absurd rfl (not_minus_of_canonNat h (c :: r))
  · exact h

theorem canonInt_iff (cs : List Char) : canonInt cs = true ↔ canonNat cs = true ∨ ∃ p, cs = '-' :: p ∧ PosDigits p := by
  constructor
  · intro h
    unfold canonInt at h
    split at h
    · rename_i c r
      simp only [Bool.and_eq_true, decide_eq_true_eq, charLe_iff] at h
      exact Or.inr ⟨c :: r, rfl, c, r, rfl, h.1.1, h.1.2, h.2⟩
    · exact Or.inl h
  · rintro (h | ⟨p, rfl, c, r, rfl, h1, h2, h3⟩)
    · exact canonInt_of_canonNat h
    · unfold canonInt
      simp only [Bool.and_eq_true, decide_eq_true_eq, charLe_iff]
      exact ⟨⟨h1, h2⟩, h3⟩

theorem canonInt_render (z : Int) : canonInt (renderInt z) = true := by
  unfold renderInt
  split
  · exact (canonInt_iff _).mpr (Or.inr ⟨_, rfl, posDigits_render (by omega)⟩)
  · exact canonInt_of_canonNat (canonNat_render _)

theorem intVal_render (z : Int) : intVal (renderInt z) = z := by
  unfold renderInt
  split
  · simp only [intVal, natVal_render]; omega
  · rw [intVal_of_canonNat (canonNat_render _), natVal_render]; omega

theorem render_intVal {cs : List Char} (h : canonInt cs = true) : renderInt (intVal cs) = cs := by
  rcases (canonInt_iff cs).mp h with hn | ⟨p, rfl, hp⟩
  · rw [intVal_of_canonNat hn]
    unfold renderInt
    rw [if_neg (by omega)]
    simp only [Int.toNat_natCast]
    exact render_natVal hn
  · have := render_natVal_pos hp
    simp only [intVal]
    unfold renderInt
    rw [if_pos (by omega)]
    simp only [Int.natAbs_neg, Int.natAbs_natCast, this.1]

/-- `(-?[1-9]\d*)|0` accepts exactly the canonical renderings of the integers. -/
theorem canonInt_iff_render (cs : List Char) : canonInt cs = true ↔ ∃ z, cs = renderInt z :=
  ⟨fun h => ⟨intVal cs, (render_intVal h).symm⟩, fun ⟨z, h⟩ => h ▸ canonInt_render z⟩

theorem intRange_unsigned {kind : String} {lo hi : Int} (h : intRange kind false = some (lo, hi)) : lo = 0 := by
  unfold intRange at h
  split at h <;> simp_all

end Edxml.Gate
