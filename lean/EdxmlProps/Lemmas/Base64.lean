/-
Base64 (RFC 4648): the alphabet table, the shape of encodings, and that the strings the gate accepts
for `base64` are exactly the encodings of non-empty octet strings (`accepts_base64_iff`).
-/
import EdxmlModel.DataType.Gate
import EdxmlProps.Lemmas.Digits
namespace Edxml.Gate

theorem b64_table : ∀ n, n < 64 → b64Index (b64Char n) = n ∧ isB64 (b64Char n) = true ∧ b64Char n ≠ '=' := by
  decide +kernel

theorem b64Char_toNat : ∀ n, n < 64 → (b64Char n).toNat =
    (if n < 26 then 65 + n else if n < 52 then 71 + n else if n < 62 then n - 4 else if n = 62 then 43 else 47) := by
  decide +kernel

theorem isB64_iff (c : Char) : isB64 c = true ↔
    (65 ≤ c.toNat ∧ c.toNat ≤ 90) ∨ (97 ≤ c.toNat ∧ c.toNat ≤ 122) ∨ (48 ≤ c.toNat ∧ c.toNat ≤ 57) ∨ c.toNat = 43 ∨ c.toNat = 47 := by
  unfold isB64
  simp only [Bool.or_eq_true, Bool.and_eq_true, decide_eq_true_eq, isDigit_iff, beq_iff_eq]
  have e1 : ('A' ≤ c) ↔ 65 ≤ c.toNat := by rw [Char.le_def]; rfl
  have e2 : (c ≤ 'Z') ↔ c.toNat ≤ 90 := by rw [Char.le_def]; rfl
  have e3 : ('a' ≤ c) ↔ 97 ≤ c.toNat := by rw [Char.le_def]; rfl
  have e4 : (c ≤ 'z') ↔ c.toNat ≤ 122 := by rw [Char.le_def]; rfl
  have e5 : c = '+' ↔ c.toNat = 43 := by rw [← Char.toNat_inj]; rfl
  have e6 : c = '/' ↔ c.toNat = 47 := by rw [← Char.toNat_inj]; rfl
  rw [e1, e2, e3, e4, e5, e6]
  constructor
  · rintro ((((h | h) | h) | h) | h)
    · exact Or.inl h
    · exact Or.inr (Or.inl h)
    · exact Or.inr (Or.inr (Or.inl h))
    · exact Or.inr (Or.inr (Or.inr (Or.inl h)))
    · exact Or.inr (Or.inr (Or.inr (Or.inr h)))
  · rintro (h | h | h | h | h)
    · exact Or.inl (Or.inl (Or.inl (Or.inl h)))
    · exact Or.inl (Or.inl (Or.inl (Or.inr h)))
    · exact Or.inl (Or.inl (Or.inr h))
    · exact Or.inl (Or.inr h)
    · exact Or.inr h


theorem b64Index_eq (c : Char) : b64Index c =
    (if 65 ≤ c.toNat ∧ c.toNat ≤ 90 then c.toNat - 65 else if 97 ≤ c.toNat ∧ c.toNat ≤ 122 then c.toNat - 71
     else if 48 ≤ c.toNat ∧ c.toNat ≤ 57 then c.toNat + 4 else if c.toNat = 43 then 62 else 63) := by
  unfold b64Index
  have e1 : ('A' ≤ c) ↔ 65 ≤ c.toNat := by rw [Char.le_def]; rfl
  have e2 : (c ≤ 'Z') ↔ c.toNat ≤ 90 := by rw [Char.le_def]; rfl
  have e3 : ('a' ≤ c) ↔ 97 ≤ c.toNat := by rw [Char.le_def]; rfl
  have e4 : (c ≤ 'z') ↔ c.toNat ≤ 122 := by rw [Char.le_def]; rfl
  have e5 : c = '+' ↔ c.toNat = 43 := by rw [← Char.toNat_inj]; rfl
  simp only [Bool.and_eq_true, decide_eq_true_eq, e1, e2, e3, e4, beq_iff_eq, e5, isDigit_iff]

theorem b64Index_lt (c : Char) (h : isB64 c = true) : b64Index c < 64 := by
  rw [b64Index_eq]
  rw [isB64_iff] at h
  split
  · omega
  · split
    · omega
    · split
      · omega
      · split <;> omega

theorem b64Char_b64Index (c : Char) (h : isB64 c = true) : b64Char (b64Index c) = c := by
  apply Char.toNat_inj.mp
  rw [b64Char_toNat _ (b64Index_lt c h), b64Index_eq]
  rw [isB64_iff] at h
  by_cases h1 : 65 ≤ c.toNat ∧ c.toNat ≤ 90
  · simp only [h1, and_self, if_true]; split <;> omega
  · by_cases h2 : 97 ≤ c.toNat ∧ c.toNat ≤ 122
    · simp only [h1, h2, and_self, if_true, if_false]; split <;> (try split) <;> omega
    · by_cases h3 : 48 ≤ c.toNat ∧ c.toNat ≤ 57
      · simp only [h1, h2, h3, and_self, if_true, if_false]; split <;> (try split) <;> (try split) <;> omega
      · by_cases h4 : c.toNat = 43
        · simp only [h1, h2, h3, h4, if_true, if_false]; decide
        · simp only [h1, h2, h3, h4, if_false]
          have : c.toNat = 47 := by omega
          rw [this]; decide


/-- the shape of an encoding: symbols, then 0..2 padding characters -/
theorem b64Encode_shape : ∀ (bs : List Nat), (∀ b ∈ bs, b < 256) →
    ∃ body k, b64Encode bs = body ++ List.replicate k '=' ∧ body.all isB64 = true ∧ (∀ c ∈ body, c ≠ '=') ∧ k ≤ 2 ∧
      (body.length + k) % 4 = 0 ∧ body.length * 3 / 4 = bs.length ∧ lastOkB k body.getLast? = true ∧ (bs ≠ [] → body ≠ [])
  | [], _ => ⟨[], 0, rfl, rfl, by simp, by omega, rfl, rfl, rfl, by simp⟩
  | [a], h => by
    have ha : a < 256 := h a (by simp)
    obtain ⟨i1, t1, n1⟩ := b64_table (a / 4) (by omega)
    obtain ⟨i2, t2, n2⟩ := b64_table (a % 4 * 16) (by omega)
    refine ⟨[b64Char (a / 4), b64Char (a % 4 * 16)], 2, rfl, by simp [t1, t2], ?_, by omega, by simp, by simp, ?_, by simp⟩
    · intro c hc; simp only [List.mem_cons, List.mem_nil_iff, or_false] at hc; rcases hc with rfl | rfl <;> assumption
    · simp only [lastOkB, List.getLast?_cons_cons, List.getLast?_singleton, i2]; simp
  | [a, b], h => by
    have ha : a < 256 := h a (by simp)
    have hb : b < 256 := h b (by simp)
    obtain ⟨i1, t1, n1⟩ := b64_table (a / 4) (by omega)
    obtain ⟨i2, t2, n2⟩ := b64_table (a % 4 * 16 + b / 16) (by omega)
    obtain ⟨i3, t3, n3⟩ := b64_table (b % 16 * 4) (by omega)
    refine ⟨[b64Char (a / 4), b64Char (a % 4 * 16 + b / 16), b64Char (b % 16 * 4)], 1, rfl, by simp [t1, t2, t3], ?_, by omega, by simp, by simp, ?_, by simp⟩
    · intro c hc; simp only [List.mem_cons, List.mem_nil_iff, or_false] at hc; rcases hc with rfl | rfl | rfl <;> assumption
    · simp only [lastOkB, List.getLast?_cons_cons, List.getLast?_singleton, i3]; simp
  | a :: b :: c :: r, h => by
    have ha : a < 256 := h a (by simp)
    have hb : b < 256 := h b (by simp)
    have hc : c < 256 := h c (by simp)
    obtain ⟨i1, t1, n1⟩ := b64_table (a / 4) (by omega)
    obtain ⟨i2, t2, n2⟩ := b64_table (a % 4 * 16 + b / 16) (by omega)
    obtain ⟨i3, t3, n3⟩ := b64_table (b % 16 * 4 + c / 64) (by omega)
    obtain ⟨i4, t4, n4⟩ := b64_table (c % 64) (by omega)
    obtain ⟨body, k, e, hall, hne, hk, hlen, hdec, hlast, _⟩ := b64Encode_shape r (fun x hx => h x (by simp [hx]))
    refine ⟨b64Char (a / 4) :: b64Char (a % 4 * 16 + b / 16) :: b64Char (b % 16 * 4 + c / 64) :: b64Char (c % 64) :: body, k,
      by simp [b64Encode, e], by simp [t1, t2, t3, t4, hall], ?_, hk, by simp only [List.length_cons]; omega,
      by simp only [List.length_cons]; omega, ?_, by simp⟩
    · intro x hx
      simp only [List.mem_cons] at hx
      rcases hx with rfl | rfl | rfl | rfl | hx
      · exact n1
      · exact n2
      · exact n3
      · exact n4
      · exact hne x hx
    · cases body with
      | nil =>
        have : k = 0 := by simp at hlen; omega
        subst this; rfl
      | cons y ys =>
        simpa [List.getLast?_cons_cons] using hlast


theorem decodedLength_of_shape (body : List Char) (k : Nat) (hall : body.all isB64 = true) (hne : ∀ c ∈ body, c ≠ '=')
    (hk : k ≤ 2) (hlen : (body.length + k) % 4 = 0) (hlast : lastOkB k body.getLast? = true) (hnz : body ≠ []) :
    base64DecodedLength (body ++ List.replicate k '=') = some (body.length * 3 / 4) := by
  have htw : (body ++ List.replicate k '=').takeWhile (· != '=') = body := by
    rw [List.takeWhile_append_of_pos (by intro a ha; simpa using hne a ha), List.takeWhile_replicate]
    simp
  have hdw : (body ++ List.replicate k '=').dropWhile (· != '=') = List.replicate k '=' := by
    rw [List.dropWhile_append_of_pos (by intro a ha; simpa using hne a ha), List.dropWhile_replicate]
    simp
  unfold base64DecodedLength
  simp only [htw, hdw, List.length_append, List.length_replicate, hlen, List.isEmpty_iff, List.append_eq_nil_iff, hnz, false_and,
    bne_self_eq_false, Bool.false_or, decide_false, Bool.false_eq_true, if_false, hall, Bool.not_true]
  have hpad : (List.replicate k '=').all (· == '=') = true := by simp
  have hk2 : ¬ (k > 2) := by omega
  simp only [hpad, Bool.not_true, Bool.false_or, hk2, decide_false, Bool.false_eq_true, if_false]
  rw [hlast]
  rfl

/-- C03: the base64 notation of a non-empty octet string is accepted (within the length limit of the type) -/
theorem b64Encode_accepted (maxLen : Nat) (bs : List Nat) (hb : ∀ b ∈ bs, b < 256) (hne : bs ≠ [])
    (hmax : maxLen = 0 ∨ bs.length ≤ maxLen) : acceptsBase64 maxLen (b64Encode bs) = true := by
  obtain ⟨body, k, e, hall, hneq, hk, hlen, hdec, hlast, hnz⟩ := b64Encode_shape bs hb
  unfold acceptsBase64
  rw [e, decodedLength_of_shape body k hall hneq hk hlen hlast (hnz hne), hdec]
  have : 1 ≤ bs.length := by cases bs <;> simp_all
  rcases hmax with h | h
  · simp [h, this]
  · simp [h, this]


theorem b64_round (w : Char) (hw : isB64 w = true) (n : Nat) (hn : n = b64Index w) : b64Char n = w := by
  subst hn; exact b64Char_b64Index w hw

/-- what a string of the accepted shape decodes to encodes back to the string -/
theorem b64Encode_b64Decode : ∀ (body : List Char) (k : Nat), body.all isB64 = true → (∀ c ∈ body, c ≠ '=') → k ≤ 2 →
    (body.length + k) % 4 = 0 → lastOkB k body.getLast? = true →
    b64Encode (b64Decode (body ++ List.replicate k '=')) = body ++ List.replicate k '=' ∧
    (∀ b ∈ b64Decode (body ++ List.replicate k '='), b < 256) ∧
    (b64Decode (body ++ List.replicate k '=')).length = body.length * 3 / 4
  | [], k, _, _, hk, hlen, _ => by
    have : k = 0 := by simp at hlen; omega
    subst this; simp [b64Decode, b64Encode]
  | [w], k, _, _, hk, hlen, _ => by simp at hlen; omega
  | [w, x], k, hall, hne, hk, hlen, hlast => by
    have hk2 : k = 2 := by simp at hlen; omega
    subst hk2
    simp only [List.all_cons, List.all_nil, Bool.and_true, Bool.and_eq_true] at hall
    have iw := b64Index_lt w hall.1
    have ix := b64Index_lt x hall.2
    have hl : b64Index x % 16 = 0 := by simpa [lastOkB] using hlast
    simp only [List.replicate, List.cons_append, List.nil_append, b64Decode, beq_self_eq_true, if_true, b64Encode]
    refine ⟨?_, ?_, by simp⟩
    · rw [b64_round w hall.1 _ (by omega), b64_round x hall.2 _ (by omega)]
    · intro b hb; simp only [List.mem_cons, List.mem_nil_iff, or_false] at hb; omega
  | [w, x, y], k, hall, hne, hk, hlen, hlast => by
    have hk1 : k = 1 := by simp at hlen; omega
    subst hk1
    simp only [List.all_cons, List.all_nil, Bool.and_true, Bool.and_eq_true] at hall
    have iw := b64Index_lt w hall.1
    have ix := b64Index_lt x hall.2.1
    have iy := b64Index_lt y hall.2.2
    have hy : (y == '=') = false := by simpa using hne y (by simp)
    have hl : b64Index y % 4 = 0 := by simpa [lastOkB] using hlast
    simp only [List.replicate, List.cons_append, List.nil_append, b64Decode, hy, Bool.false_eq_true, if_false, beq_self_eq_true, if_true,
      b64Encode]
    refine ⟨?_, ?_, by simp⟩
    · rw [b64_round w hall.1 _ (by omega), b64_round x hall.2.1 _ (by omega), b64_round y hall.2.2 _ (by omega)]
    · intro b hb; simp only [List.mem_cons, List.mem_nil_iff, or_false] at hb; omega
  | w :: x :: y :: z :: body, k, hall, hne, hk, hlen, hlast => by
    simp only [List.all_cons, Bool.and_eq_true] at hall
    obtain ⟨hw, hx, hy, hz, hrest⟩ := hall
    have iw := b64Index_lt w hw
    have ix := b64Index_lt x hx
    have iy := b64Index_lt y hy
    have iz := b64Index_lt z hz
    have ny : (y == '=') = false := by simpa using hne y (by simp)
    have nz : (z == '=') = false := by simpa using hne z (by simp)
    have hlast' : lastOkB k body.getLast? = true := by
      cases body with
      | nil =>
        have : k = 0 := by simp at hlen; omega
        subst this; rfl
      | cons c cs => simpa [List.getLast?_cons_cons] using hlast
    obtain ⟨ih1, ih2, ih3⟩ := b64Encode_b64Decode body k hrest (fun c hc => hne c (by simp [hc])) hk
      (by simp only [List.length_cons] at hlen; omega) hlast'
    simp only [List.cons_append, b64Decode, ny, nz, Bool.false_eq_true, if_false, b64Encode, ih1]
    refine ⟨?_, ?_, ?_⟩
    · rw [b64_round w hw _ (by omega), b64_round x hx _ (by omega), b64_round y hy _ (by omega), b64_round z hz _ (by omega)]
    · intro b hb
      simp only [List.mem_cons] at hb
      rcases hb with rfl | rfl | rfl | hb
      · omega
      · omega
      · omega
      · exact ih2 b hb
    · simp only [List.length_cons, ih3]; omega


theorem eq_replicate_of_all (l : List Char) (h : l.all (· == '=') = true) : l = List.replicate l.length '=' := by
  induction l with
  | nil => rfl
  | cons c cs ih =>
    simp only [List.all_cons, Bool.and_eq_true, beq_iff_eq] at h
    rw [List.length_cons, List.replicate_succ, ← ih h.2, h.1]

/-- C03: the value space of `base64` is exactly the canonical base64 notations (RFC 4648, padded, no
white space) of the non-empty octet strings within the length limit of the type -/
theorem accepts_base64_iff (maxLen : Nat) (cs : List Char) :
    acceptsBase64 maxLen cs = true ↔
      ∃ bs : List Nat, (∀ b ∈ bs, b < 256) ∧ bs ≠ [] ∧ (maxLen = 0 ∨ bs.length ≤ maxLen) ∧ cs = b64Encode bs := by
  constructor
  · intro h
    unfold acceptsBase64 at h
    cases hd : base64DecodedLength cs with
    | none => rw [hd] at h; cases h
    | some n =>
      rw [hd] at h
      simp only [Bool.and_eq_true, decide_eq_true_eq, Bool.or_eq_true, beq_iff_eq] at h
      obtain ⟨hn1, hmax⟩ := h
      unfold base64DecodedLength at hd
      split at hd
      · cases hd
      · rename_i h1
        simp only at hd
        split at hd
        · cases hd
        · rename_i h2
          split at hd
          · cases hd
          · rename_i h3
            simp only [Option.some.injEq] at hd
            simp only [Bool.or_eq_true, bne_iff_ne, ne_eq, decide_eq_true_eq, not_or, Decidable.not_not, Bool.not_eq_true',
              Bool.not_eq_eq_eq_not, Bool.not_true, Bool.not_eq_false'] at h1 h2 h3
            generalize hb : cs.takeWhile (· != '=') = body at h2 h3 hd
            generalize hp : cs.dropWhile (· != '=') = pad at h2 h3
            have hcs : cs = body ++ pad := by rw [← hb, ← hp, List.takeWhile_append_dropWhile]
            have hpad := eq_replicate_of_all pad (by simpa using h2.1.2)
            have hne : ∀ c ∈ body, c ≠ '=' := by
              intro c hc
              rw [← hb] at hc
              have := List.all_eq_true.mp (List.all_takeWhile (p := (· != '=')) (l := cs)) c hc
              simpa using this
            have hall : body.all isB64 = true := by simpa using h2.1.1
            have hk : pad.length ≤ 2 := by have := h2.2; omega
            have hlen : (body.length + pad.length) % 4 = 0 := by
              have := h1.1
              rw [hcs, List.length_append] at this
              simpa using this
            obtain ⟨r1, r2, r3⟩ := b64Encode_b64Decode body pad.length hall hne hk hlen (by simpa using h3)
            rw [← hpad, ← hcs] at r1 r2 r3
            refine ⟨b64Decode cs, r2, ?_, ?_, r1.symm⟩
            · intro he; rw [he] at r3; simp at r3; omega
            · rcases hmax with h0 | hle
              · exact Or.inl h0
              · exact Or.inr (by omega)
  · rintro ⟨bs, hb, hne, hmax, rfl⟩
    exact b64Encode_accepted maxLen bs hb hne hmax


end Edxml.Gate
