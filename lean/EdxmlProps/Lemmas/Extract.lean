import EdxmlModel.Miner.Extract
namespace Edxml.Miner.Extract

theorem mem_dedup {α : Type} [BEq α] [LawfulBEq α] (a : α) : ∀ l : List α, a ∈ dedup l ↔ a ∈ l
  | [] => by simp [dedup]
  | x :: xs => by
    have ih := mem_dedup a xs
    unfold dedup
    by_cases h : x ∈ dedup xs
    · have hc : (dedup xs).contains x = true := by simpa using h
      rw [if_pos hc, List.mem_cons]
      constructor
      · intro hm; exact Or.inr (ih.mp hm)
      · rintro (rfl | hm)
        · exact h
        · exact ih.mpr hm
    · have hc : ¬ (dedup xs).contains x = true := by simpa using h
      rw [if_neg hc, List.mem_cons, List.mem_cons, ih]

theorem nodup_dedup {α : Type} [BEq α] [LawfulBEq α] : ∀ l : List α, (dedup l).Nodup
  | [] => by simp [dedup]
  | x :: xs => by
    have ih := nodup_dedup xs
    unfold dedup
    by_cases h : x ∈ dedup xs
    · have hc : (dedup xs).contains x = true := by simpa using h
      rw [if_pos hc]; exact ih
    · have hc : ¬ (dedup xs).contains x = true := by simpa using h
      rw [if_neg hc, List.nodup_cons]
      exact ⟨h, ih⟩

end Edxml.Miner.Extract

namespace Edxml.Miner.Extract

theorem lookup_mem_keys {l : List (Nat × Rat)} {s : Nat} {c : Rat} (h : l.lookup s = some c) : s ∈ l.map (·.1) := by
  induction l with
  | nil => simp at h
  | cons x xs ih =>
    obtain ⟨k, v⟩ := x
    simp only [List.lookup_cons] at h
    by_cases hk : s == k
    · simp only [List.map_cons, List.mem_cons]
      exact Or.inl (by simpa using hk)
    · simp only [hk] at h
      simp only [List.map_cons, List.mem_cons]
      exact Or.inr (ih h)

theorem lookup_of_mem_nodup {l : List (Nat × Rat)} {s : Nat} {c : Rat} (hn : (l.map (·.1)).Nodup) (h : (s, c) ∈ l) :
    l.lookup s = some c := by
  induction l with
  | nil => simp at h
  | cons x xs ih =>
    obtain ⟨k, v⟩ := x
    simp only [List.map_cons, List.nodup_cons] at hn
    simp only [List.mem_cons, Prod.mk.injEq] at h
    simp only [List.lookup_cons]
    rcases h with ⟨rfl, rfl⟩ | h
    · simp
    · have hne : ¬ (s == k) = true := by
        intro heq
        have : s = k := by simpa using heq
        subst this
        exact hn.1 (List.mem_map.mpr ⟨(s, c), h, rfl⟩)
      simp only [hne]
      exact ih hn.2 h

theorem qualifies_iff {min : Rat} {n : ONode} {s : Nat} :
    qualifies min n s = true ↔ ∃ c, n.sc.lookup s = some c ∧ min ≤ c := by
  unfold qualifies
  cases h : n.sc.lookup s with
  | none => simp
  | some c => simp

theorem mem_seedsOf {nodes : List ONode} {min : Rat} {s : Nat} :
    s ∈ seedsOf nodes min ↔ ∃ n ∈ nodes, qualifies min n s = true := by
  unfold seedsOf
  rw [mem_dedup]
  simp only [List.mem_flatMap, List.mem_filter, List.mem_map]
  constructor
  · rintro ⟨n, hn, _, hq⟩; exact ⟨n, hn, hq⟩
  · rintro ⟨n, hn, hq⟩
    obtain ⟨c, hc, _⟩ := qualifies_iff.mp hq
    obtain ⟨p, hp, hps⟩ := List.mem_map.mp (lookup_mem_keys hc)
    exact ⟨n, hn, ⟨p, hp, hps⟩, hq⟩

theorem mem_attrsOf {nodes : List ONode} {min : Rat} {s : Nat} {a v : String} :
    (a, v) ∈ attrsOf nodes min s ↔ ∃ n ∈ nodes, qualifies min n s = true ∧ n.attr = a ∧ n.value = v := by
  unfold attrsOf
  rw [mem_dedup]
  simp only [List.mem_map, List.mem_filter, Prod.mk.injEq]
  constructor
  · rintro ⟨n, ⟨hn, hq⟩, ha, hv⟩; exact ⟨n, hn, hq, ha, hv⟩
  · rintro ⟨n, hn, hq, ha, hv⟩; exact ⟨n, ⟨hn, hq⟩, ha, hv⟩

theorem mem_attrNodes {nodes : List ONode} {min : Rat} {s : Nat} {a v : String} {k : Nat} :
    k ∈ attrNodes nodes min s a v ↔ ∃ n ∈ nodes, n.id = k ∧ qualifies min n s = true ∧ n.attr = a ∧ n.value = v := by
  unfold attrNodes
  simp only [List.mem_map, List.mem_filter, Bool.and_eq_true, beq_iff_eq]
  constructor
  · rintro ⟨n, ⟨hn, ⟨hq, ha⟩, hv⟩, hk⟩; exact ⟨n, hn, hk, hq, ha, hv⟩
  · rintro ⟨n, hn, hk, hq, ha, hv⟩; exact ⟨n, ⟨hn, ⟨hq, ha⟩, hv⟩, hk⟩

end Edxml.Miner.Extract
