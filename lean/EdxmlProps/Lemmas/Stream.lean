/-
Lemmas about per-key processing of event streams (dict-of-hash models).
-/
import EdxmlModel.Event.Merge
namespace Edxml

inductive Forall2 (P : α → β → Prop) : List α → List β → Prop
  | nil : Forall2 P [] []
  | cons {a b as bs} : P a b → Forall2 P as bs → Forall2 P (a :: as) (b :: bs)

theorem mapE_ok {f : α → Except ε β} : ∀ {l : List α} {R : List β}, mapE f l = .ok R →
    Forall2 (fun a b => f a = .ok b) l R
  | [], R, h => by simp only [mapE, Except.ok.injEq] at h; subst h; exact .nil
  | x :: xs, R, h => by
    simp only [mapE] at h
    cases hx : f x with
    | error e => rw [hx] at h; cases h
    | ok y =>
      rw [hx] at h; simp only at h
      cases hxs : mapE f xs with
      | error e => rw [hxs] at h; cases h
      | ok ys =>
        rw [hxs] at h; simp only [Except.ok.injEq] at h; subst h
        exact .cons hx (mapE_ok hxs)

theorem mapE_of_forall₂ {f : α → Except ε β} : ∀ {l : List α} {R : List β},
    Forall2 (fun a b => f a = .ok b) l R → mapE f l = .ok R
  | _, _, .nil => rfl
  | _, _, .cons hx hxs => by simp only [mapE, hx, mapE_of_forall₂ hxs]

theorem mem_firstOccurrences [BEq α] [LawfulBEq α] (a : α) : ∀ (l : List α),
    a ∈ firstOccurrences l ↔ a ∈ l
  | [] => by simp [firstOccurrences]
  | x :: xs => by
    simp only [firstOccurrences, List.mem_cons, List.mem_filter, mem_firstOccurrences a xs,
      Bool.not_eq_true', beq_eq_false_iff_ne, ne_eq]
    constructor
    · rintro (h | ⟨h, _⟩)
      · exact Or.inl h
      · exact Or.inr h
    · rintro (h | h)
      · exact Or.inl h
      · by_cases hax : a = x
        · exact Or.inl hax
        · exact Or.inr ⟨h, hax⟩

theorem nodup_firstOccurrences [BEq α] [LawfulBEq α] : ∀ (l : List α), (firstOccurrences l).Nodup
  | [] => List.nodup_nil
  | x :: xs => by
    simp only [firstOccurrences]
    refine List.nodup_cons.mpr ⟨?_, (nodup_firstOccurrences xs).filter _⟩
    intro hm
    have := (List.mem_filter.mp hm).2
    simp at this

theorem filter_beq_of_nodup [BEq α] [LawfulBEq α] (h : α) : ∀ (l : List α), l.Nodup →
    l.filter (fun k => k == h) = if h ∈ l then [h] else []
  | [], _ => by simp
  | x :: xs, hn => by
    have hn' := List.nodup_cons.mp hn
    simp only [List.filter_cons]
    by_cases hx : x = h
    · subst hx
      rw [filter_beq_of_nodup x xs hn'.2, if_neg hn'.1]
      simp
    · have : (x == h) = false := beq_eq_false_iff_ne.mpr hx
      simp only [this, Bool.false_eq_true, if_false, List.mem_cons]
      rw [filter_beq_of_nodup h xs hn'.2]
      have hne : ¬ (h = x) := fun e => hx e.symm
      by_cases hm : h ∈ xs
      · simp [hm]
      · simp [hm, hne]

theorem mem_keysOf (key : Event → Bytes) (es : List Event) (h : Bytes) :
    h ∈ keysOf key es ↔ ∃ e ∈ es, key e = h := by
  unfold keysOf
  rw [mem_firstOccurrences]
  simp only [List.mem_map]

theorem groupOf_eq_nil_iff (key : Event → Bytes) (es : List Event) (h : Bytes) :
    groupOf key h es = [] ↔ h ∉ keysOf key es := by
  rw [mem_keysOf]
  unfold groupOf
  rw [List.filter_eq_nil_iff]
  simp only [beq_iff_eq, not_exists, not_and]

theorem mem_groupOf (key : Event → Bytes) (es : List Event) (h : Bytes) (e : Event) :
    e ∈ groupOf key h es ↔ e ∈ es ∧ key e = h := by
  unfold groupOf; simp only [List.mem_filter, beq_iff_eq]

/-- The output of per-key processing holds, for every key, exactly the result for that key —
provided the result of a group carries the key of the group. -/
theorem perKey_group (key : Event → Bytes) (F : List Event → Except MergeErr Event) (es R : List Event)
    (hR : perKey key F es = .ok R)
    (hF : ∀ h r, h ∈ keysOf key es → F (groupOf key h es) = .ok r → key r = h) (h : Bytes) :
    (h ∈ keysOf key es → ∃ r, F (groupOf key h es) = .ok r ∧ groupOf key h R = [r]) ∧
    (h ∉ keysOf key es → groupOf key h R = []) := by
  unfold perKey at hR
  have hf := mapE_ok hR
  have hnd : (keysOf key es).Nodup := nodup_firstOccurrences _
  -- generalise over the key list
  have gen : ∀ (ks : List Bytes) (R : List Event), (∀ k ∈ ks, k ∈ keysOf key es) → ks.Nodup →
      Forall2 (fun a b => F (groupOf key a es) = .ok b) ks R →
      (h ∈ ks → ∃ r, F (groupOf key h es) = .ok r ∧ groupOf key h R = [r]) ∧
      (h ∉ ks → groupOf key h R = []) := by
    intro ks
    induction ks with
    | nil =>
      intro R _ _ hf
      cases hf
      exact ⟨fun hm => (by cases hm), fun _ => rfl⟩
    | cons k ks ih =>
      intro R hsub hnd hf
      cases hf with
      | cons hk hrest =>
        rename_i r R'
        have hnd' := List.nodup_cons.mp hnd
        have ih' := ih R' (fun k' hk' => hsub k' (List.mem_cons_of_mem _ hk')) hnd'.2 hrest
        have hkr : key r = k := hF k r (hsub k (by simp)) hk
        constructor
        · intro hm
          rcases List.mem_cons.mp hm with rfl | hm
          · refine ⟨r, hk, ?_⟩
            unfold groupOf
            simp only [List.filter_cons, hkr, beq_self_eq_true, if_true]
            have := ih'.2 hnd'.1
            unfold groupOf at this
            rw [this]
          · obtain ⟨r', hr', hg⟩ := ih'.1 hm
            refine ⟨r', hr', ?_⟩
            have hne : k ≠ h := fun e => hnd'.1 (e ▸ hm)
            unfold groupOf at hg ⊢
            simp only [List.filter_cons, hkr, beq_eq_false_iff_ne.mpr hne, Bool.false_eq_true, if_false]
            exact hg
        · intro hm
          have hne : k ≠ h := fun e => hm (e ▸ List.mem_cons_self)
          have := ih'.2 (fun hm' => hm (List.mem_cons_of_mem _ hm'))
          unfold groupOf at this ⊢
          simp only [List.filter_cons, hkr, beq_eq_false_iff_ne.mpr hne, Bool.false_eq_true, if_false]
          exact this
  exact gen (keysOf key es) R (fun _ hk => hk) hnd hf

theorem chunksL_flatten (k : Nat) : ∀ (l : List α), (chunksL k l).flatten = l := by
  intro l
  induction hlen : l.length using Nat.strongRecOn generalizing l with
  | _ n ih =>
    rw [chunksL]
    split
    · rename_i hc
      split
      · rename_i hl; simp [hl]
      · simp
    · rename_i hc
      have hl : l ≠ [] := fun e => hc (Or.inr e)
      have hk : k ≠ 0 := fun e => hc (Or.inl e)
      have : (l.drop k).length < n := by
        have : 0 < l.length := List.length_pos_iff.mpr hl
        simp only [List.length_drop]; omega
      simp only [List.flatten_cons]
      rw [ih _ this (l.drop k) rfl, List.take_append_drop]

theorem chunksL_nonempty (k : Nat) : ∀ (l : List α), ∀ c ∈ chunksL k l, c ≠ [] := by
  intro l
  induction hlen : l.length using Nat.strongRecOn generalizing l with
  | _ n ih =>
    intro c hc
    rw [chunksL] at hc
    split at hc
    · split at hc
      · cases hc
      · rename_i hl; simp at hc; subst hc; exact hl
    · rename_i hcond
      have hl : l ≠ [] := fun e => hcond (Or.inr e)
      have hk : k ≠ 0 := fun e => hcond (Or.inl e)
      have hlt : (l.drop k).length < n := by
        have : 0 < l.length := List.length_pos_iff.mpr hl
        simp only [List.length_drop]; omega
      rcases List.mem_cons.mp hc with rfl | hc
      · intro e
        have : (l.take k).length = 0 := by rw [e]; rfl
        have hpos : 0 < l.length := List.length_pos_iff.mpr hl
        simp only [List.length_take] at this
        omega
      · exact ih _ hlt (l.drop k) rfl c hc

end Edxml
