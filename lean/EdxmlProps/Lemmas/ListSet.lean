/-
Lemmas about canonical (strictly sorted, duplicate-free) lists as finite sets.
-/
import EdxmlModel.Basic.ListSet
namespace Edxml

/-- A Boolean strict total order. -/
structure StrictTotal (lt : α → α → Bool) : Prop where
  irrefl : ∀ a, lt a a = false
  trans : ∀ a b c, lt a b = true → lt b c = true → lt a c = true
  total : ∀ a b, lt a b = false → lt b a = false → a = b

abbrev SSorted (lt : α → α → Bool) (l : List α) : Prop := l.Pairwise (fun a b => lt a b = true)

variable {lt : α → α → Bool}

theorem StrictTotal.asymm (h : StrictTotal lt) {a b : α} (hab : lt a b = true) : lt b a = false := by
  cases hba : lt b a with
  | false => rfl
  | true => have := h.trans a b a hab hba; rw [h.irrefl] at this; cases this

theorem mem_insertU (h : StrictTotal lt) (x a : α) (l : List α) :
    a ∈ insertU lt x l ↔ a = x ∨ a ∈ l := by
  induction l with
  | nil => simp [insertU]
  | cons y ys ih =>
    unfold insertU
    split
    · simp
    · split
      · simp [ih]; constructor
        · rintro (h1 | h1 | h1) <;> simp [h1]
        · rintro (h1 | h1 | h1) <;> simp [h1]
      · rename_i h1 h2
        have : x = y := h.total x y (by simpa using h1) (by simpa using h2)
        subst this; simp

theorem sorted_insertU (h : StrictTotal lt) (x : α) (l : List α) (hs : SSorted lt l) :
    SSorted lt (insertU lt x l) := by
  induction l with
  | nil => simp [insertU]
  | cons y ys ih =>
    have hy := List.pairwise_cons.mp hs
    unfold insertU
    split
    · rename_i hxy
      refine List.pairwise_cons.mpr ⟨?_, hs⟩
      intro b hb
      rcases List.mem_cons.mp hb with rfl | hb
      · exact hxy
      · exact h.trans _ _ _ hxy (hy.1 b hb)
    · split
      · rename_i _ hyx
        refine List.pairwise_cons.mpr ⟨?_, ih hy.2⟩
        intro b hb
        rcases (mem_insertU h x b ys).mp hb with rfl | hb
        · exact hyx
        · exact hy.1 b hb
      · exact hs

theorem sorted_canon (h : StrictTotal lt) (l : List α) : SSorted lt (canon lt l) := by
  induction l with
  | nil => simp [canon]
  | cons x xs ih => exact sorted_insertU h x _ ih

theorem mem_canon (h : StrictTotal lt) (a : α) (l : List α) : a ∈ canon lt l ↔ a ∈ l := by
  induction l with
  | nil => simp [canon]
  | cons x xs ih =>
    show a ∈ insertU lt x (canon lt xs) ↔ _
    rw [mem_insertU h, ih]; simp

/-- Two strictly sorted lists with the same members are equal. -/
theorem sorted_ext (h : StrictTotal lt) : ∀ (l₁ l₂ : List α), SSorted lt l₁ → SSorted lt l₂ →
    (∀ a, a ∈ l₁ ↔ a ∈ l₂) → l₁ = l₂
  | [], [], _, _, _ => rfl
  | [], b :: bs, _, _, hm => by have := (hm b).mpr (by simp); cases this
  | a :: as, [], _, _, hm => by have := (hm a).mp (by simp); cases this
  | a :: as, b :: bs, h1, h2, hm => by
    have h1' := List.pairwise_cons.mp h1
    have h2' := List.pairwise_cons.mp h2
    have hab : a = b := by
      have ha : a ∈ b :: bs := (hm a).mp (by simp)
      have hb : b ∈ a :: as := (hm b).mpr (by simp)
      rcases List.mem_cons.mp ha with rfl | ha
      · rfl
      · rcases List.mem_cons.mp hb with rfl | hb
        · rfl
        · have x1 := h2'.1 a ha
          have x2 := h1'.1 b hb
          have := h.asymm x1
          rw [x2] at this; cases this
    subst hab
    congr 1
    apply sorted_ext h as bs h1'.2 h2'.2
    intro c
    constructor
    · intro hc
      have : c ∈ a :: bs := (hm c).mp (List.mem_cons_of_mem _ hc)
      rcases List.mem_cons.mp this with rfl | h'
      · have := h1'.1 c hc; rw [h.irrefl] at this; cases this
      · exact h'
    · intro hc
      have : c ∈ a :: as := (hm c).mpr (List.mem_cons_of_mem _ hc)
      rcases List.mem_cons.mp this with rfl | h'
      · have := h2'.1 c hc; rw [h.irrefl] at this; cases this
      · exact h'

/-- `sorted(set(l₁)) = sorted(set(l₂))` iff the lists have the same members. -/
theorem canon_eq_iff (h : StrictTotal lt) (l₁ l₂ : List α) :
    canon lt l₁ = canon lt l₂ ↔ ∀ a, a ∈ l₁ ↔ a ∈ l₂ := by
  constructor
  · intro he a
    rw [← mem_canon h a l₁, ← mem_canon h a l₂, he]
  · intro hm
    apply sorted_ext h _ _ (sorted_canon h _) (sorted_canon h _)
    intro a
    rw [mem_canon h, mem_canon h]; exact hm a

theorem canon_perm (h : StrictTotal lt) {l₁ l₂ : List α} (hp : l₁.Perm l₂) :
    canon lt l₁ = canon lt l₂ :=
  (canon_eq_iff h l₁ l₂).mpr fun _ => hp.mem_iff

theorem canon_idem (h : StrictTotal lt) (l : List α) : canon lt (canon lt l) = canon lt l :=
  (canon_eq_iff h _ _).mpr fun a => mem_canon h a l

theorem canon_of_sorted (h : StrictTotal lt) (l : List α) (hs : SSorted lt l) : canon lt l = l :=
  sorted_ext h _ _ (sorted_canon h l) hs fun a => mem_canon h a l

theorem nodup_of_sorted (h : StrictTotal lt) (l : List α) (hs : SSorted lt l) : l.Nodup := by
  refine List.Pairwise.imp ?_ hs
  intro a b hab heq
  subst heq; rw [h.irrefl] at hab; cases hab

/-! ### Lexicographic order -/

theorem lexLt_strictTotal (h : StrictTotal lt) : StrictTotal (lexLt lt) where
  irrefl := by
    intro a
    induction a with
    | nil => rfl
    | cons x xs ih => simp [lexLt, h.irrefl, ih]
  trans := by
    intro a
    induction a with
    | nil =>
      intro b c hab hbc
      cases b with
      | nil => simp [lexLt] at hab
      | cons y ys => cases c with
        | nil => simp [lexLt] at hbc
        | cons z zs => simp [lexLt]
    | cons x xs ih =>
      intro b c hab hbc
      cases b with
      | nil => simp [lexLt] at hab
      | cons y ys =>
        cases c with
        | nil => simp [lexLt] at hbc
        | cons z zs =>
          simp only [lexLt, Bool.or_eq_true, Bool.and_eq_true, Bool.not_eq_true'] at hab hbc ⊢
          rcases hab with hxy | ⟨hyx, hxs⟩
          · rcases hbc with hyz | ⟨hzy, _⟩
            · exact Or.inl (h.trans _ _ _ hxy hyz)
            · -- y and z equivalent: ¬ y<z ... need z = y
              cases hyz : lt y z with
              | true => exact Or.inl (h.trans _ _ _ hxy hyz)
              | false =>
                have : y = z := h.total y z hyz hzy
                subst this; exact Or.inl hxy
          · rcases hbc with hyz | ⟨hzy, hys⟩
            · cases hxy : lt x y with
              | true => exact Or.inl (h.trans _ _ _ hxy hyz)
              | false =>
                have : x = y := h.total x y hxy hyx
                subst this; exact Or.inl hyz
            · cases hxy : lt x y with
              | true =>
                cases hyz : lt y z with
                | true => exact Or.inl (h.trans _ _ _ hxy hyz)
                | false =>
                  have : y = z := h.total y z hyz hzy
                  subst this; exact Or.inl hxy
              | false =>
                have e1 : x = y := h.total x y hxy hyx
                subst e1
                cases hyz : lt x z with
                | true => exact Or.inl rfl
                | false =>
                  have e2 : x = z := h.total x z hyz hzy
                  subst e2
                  exact Or.inr ⟨h.irrefl _, ih _ _ hxs hys⟩
  total := by
    intro a
    induction a with
    | nil => intro b; cases b <;> simp [lexLt]
    | cons x xs ih =>
      intro b hab hba
      cases b with
      | nil => simp [lexLt] at hba
      | cons y ys =>
        simp only [lexLt, Bool.or_eq_false_iff, Bool.and_eq_false_iff, Bool.not_eq_false'] at hab hba
        have hxy : x = y := h.total x y hab.1 hba.1
        subst hxy
        have e1 : lexLt lt xs ys = false := by
          rcases hab.2 with h' | h'
          · rw [h.irrefl] at h'; cases h'
          · exact h'
        have e2 : lexLt lt ys xs = false := by
          rcases hba.2 with h' | h'
          · rw [h.irrefl] at h'; cases h'
          · exact h'
        rw [ih ys e1 e2]

theorem uint8_strictTotal : StrictTotal (fun (x y : UInt8) => decide (x < y)) where
  irrefl := by intro a; simp
  trans := by
    intro a b c h1 h2
    simp only [decide_eq_true_eq] at *
    exact UInt8.lt_trans h1 h2
  total := by
    intro a b h1 h2
    simp only [decide_eq_false_iff_not, UInt8.not_lt] at *
    exact UInt8.le_antisymm h2 h1

theorem bytesLt_strictTotal : StrictTotal bytesLt := lexLt_strictTotal uint8_strictTotal

theorem charNat_strictTotal : StrictTotal (fun (x y : Char) => decide (x.toNat < y.toNat)) where
  irrefl := by intro a; simp
  trans := by
    intro a b c h1 h2
    simp only [decide_eq_true_eq] at *
    omega
  total := by
    intro a b h1 h2
    simp only [decide_eq_false_iff_not] at *
    apply Char.ext
    apply UInt32.toNat_inj.mp
    show a.toNat = b.toNat
    omega

theorem strLt_strictTotal : StrictTotal strLt where
  irrefl := by intro a; exact (lexLt_strictTotal charNat_strictTotal).irrefl _
  trans := by intro a b c; exact (lexLt_strictTotal charNat_strictTotal).trans _ _ _
  total := by
    intro a b h1 h2
    have := (lexLt_strictTotal charNat_strictTotal).total _ _ h1 h2
    exact String.toList_inj.mp this

end Edxml
