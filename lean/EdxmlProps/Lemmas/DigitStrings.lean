/-
Digit strings of a fixed length: they denote different numbers, and writing the number a digit
string denotes with as many digits (zero padded) gives the string back.
-/
import EdxmlProps.Lemmas.Numerals
namespace Edxml.Gate
open Edxml.Norm

theorem natVal_cons (c : Char) (r : List Char) : natVal (c :: r) = (c.toNat - 48) * 10 ^ r.length + natVal r := by
  have := natVal_append' [c] r
  simp only [List.singleton_append] at this
  rw [this]
  have : natVal [c] = c.toNat - 48 := by simp [natVal]
  rw [this]

theorem natVal_lt_pow : ∀ (ds : List Char), ds.all isDigit = true → natVal ds < 10 ^ ds.length
  | [], _ => by simp [natVal]
  | c :: r, h => by
    simp only [List.all_cons, Bool.and_eq_true] at h
    have ih := natVal_lt_pow r h.2
    have hc := (isDigit_iff c).mp h.1
    rw [natVal_cons, List.length_cons, Nat.pow_succ]
    have : (c.toNat - 48) * 10 ^ r.length ≤ 9 * 10 ^ r.length := Nat.mul_le_mul_right _ (by omega)
    generalize (c.toNat - 48) * 10 ^ r.length = t at this
    omega

/-- digit strings of one length denote different numbers -/
theorem natVal_inj : ∀ (a b : List Char), a.length = b.length → a.all isDigit = true → b.all isDigit = true →
    natVal a = natVal b → a = b
  | [], [], _, _, _, _ => rfl
  | [], _ :: _, h, _, _, _ => by simp at h
  | _ :: _, [], h, _, _, _ => by simp at h
  | x :: a, y :: b, hl, ha, hb, hv => by
    simp only [List.length_cons, Nat.add_right_cancel_iff] at hl
    simp only [List.all_cons, Bool.and_eq_true] at ha hb
    rw [natVal_cons, natVal_cons, hl] at hv
    have la := natVal_lt_pow a ha.2
    have lb := natVal_lt_pow b hb.2
    rw [hl] at la
    have hP : 0 < 10 ^ b.length := Nat.pow_pos (by decide)
    generalize 10 ^ b.length = P at hv la lb hP
    have e1 : ((x.toNat - 48) * P + natVal a) / P = x.toNat - 48 := by
      rw [Nat.mul_comm, Nat.mul_add_div hP, Nat.div_eq_of_lt la]; rfl
    have e2 : ((y.toNat - 48) * P + natVal b) / P = y.toNat - 48 := by
      rw [Nat.mul_comm, Nat.mul_add_div hP, Nat.div_eq_of_lt lb]; rfl
    have hd : x.toNat - 48 = y.toNat - 48 := by rw [← e1, ← e2, hv]
    have hx := (isDigit_iff x).mp ha.1
    have hy := (isDigit_iff y).mp hb.1
    have hxy : x = y := Char.toNat_inj.mp (by omega)
    subst hxy
    have hv' : natVal a = natVal b := by omega
    rw [natVal_inj a b hl ha.2 hb.2 hv']

/-- writing the number a digit string denotes with as many digits gives the string back -/
theorem pad_natVal (ds : List Char) (hd : ds.all isDigit = true) (hne : 1 ≤ ds.length) :
    padLeft ds.length (renderNat (natVal ds)) = ds := by
  have hlen : (renderNat (natVal ds)).length ≤ ds.length := length_render_le _ _ hne (natVal_lt_pow ds hd)
  apply natVal_inj
  · exact padLeft_length hlen
  · exact padLeft_all (all_isDigit_render _)
  · exact hd
  · rw [natVal_padLeft, natVal_render]



end Edxml.Gate
