/-
Generic lemmas about the versioned comparison scheme.
-/
import EdxmlModel.Ontology.Cmp
namespace Edxml.Ont

theorem Cmp.flip_flip (c : Cmp) : c.flip.flip = c := by cases c <;> rfl

/-- Antisymmetry of the skeleton: it suffices that, at equal versions, swapping the operands
changes neither whether a nested comparison raises nor the `equal` flag. -/
theorem cmpGen_antisymm (flags : α → α → Nat → Nat → Flags) (a b : α) (va vb : Nat)
    (hr : ∀ v, (flags a b v v).raised = (flags b a v v).raised)
    (he : ∀ v, (flags a b v v).raised = false → (flags a b v v).equal = (flags b a v v).equal) :
    cmpGen vb va flags b a = (cmpGen va vb flags a b).flip := by
  unfold cmpGen
  rcases Nat.lt_trichotomy va vb with h | h | h
  · have h1 : decide (vb > va) = true := by simpa using h
    have h2 : decide (va > vb) = false := by simp; omega
    have h3 : (vb == va) = false := by simp; omega
    have h4 : (va == vb) = false := by simp; omega
    have h5 : (vb != va) = true := by simp; omega
    have h6 : (va != vb) = true := by simp; omega
    simp only [h1, h2, h3, h4, h5, h6, if_true, Bool.false_eq_true, if_false, Bool.false_and, Bool.and_true]
    cases (flags a b va vb).raised <;> cases (flags a b va vb).valid <;> rfl
  · subst h
    have h1 : decide (va > va) = false := by simp
    have h3 : (va == va) = true := by simp
    have h5 : (va != va) = false := by simp
    simp only [h1, h3, h5, Bool.false_eq_true, if_false, Bool.true_and, Bool.and_false]
    have r := hr va
    cases hra : (flags a b va va).raised with
    | true => rw [hra] at r; rw [← r]; rfl
    | false =>
      rw [hra] at r; rw [← r]
      have e := he va hra
      rw [← e]
      cases (flags a b va va).equal <;> rfl
  · have h1 : decide (vb > va) = false := by simp; omega
    have h2 : decide (va > vb) = true := by simpa using h
    have h3 : (vb == va) = false := by simp; omega
    have h4 : (va == vb) = false := by simp; omega
    have h5 : (vb != va) = true := by simp; omega
    have h6 : (va != vb) = true := by simp; omega
    simp only [h1, h2, h3, h4, h5, h6, if_true, Bool.false_eq_true, if_false, Bool.false_and, Bool.and_true]
    cases (flags b a vb va).raised <;> cases (flags b a vb va).valid <;> rfl

theorem cmpGen_refl (flags : α → α → Nat → Nat → Flags) (a : α) (v : Nat)
    (hr : (flags a a v v).raised = false) (he : (flags a a v v).equal = true) :
    cmpGen v v flags a a = .eq := by
  unfold cmpGen
  simp [hr, he]

/-- What `eq` means: equal versions and the `equal` flag of the (other, self) orientation. -/
theorem cmpGen_eq_iff (flags : α → α → Nat → Nat → Flags) (a b : α) (va vb : Nat) :
    cmpGen va vb flags a b = .eq ↔
      va = vb ∧ (flags b a vb va).raised = false ∧ (flags b a vb va).equal = true := by
  unfold cmpGen
  rcases Nat.lt_trichotomy va vb with h | h | h
  · have h1 : decide (vb > va) = true := by simpa using h
    have h3 : (vb == va) = false := by simp; omega
    have h5 : (vb != va) = true := by simp; omega
    simp only [h1, h3, h5, if_true, Bool.false_and, Bool.false_eq_true, if_false, Bool.and_true]
    generalize flags a b va vb = f
    obtain ⟨e, v, r⟩ := f
    have : ¬ va = vb := by omega
    cases v <;> cases r <;> simp [this]
  · subst h
    have h1 : decide (va > va) = false := by simp
    simp only [h1, Bool.false_eq_true, if_false, beq_self_eq_true, Bool.true_and, bne_self_eq_false,
      Bool.and_false, true_and]
    generalize flags b a va va = f
    obtain ⟨e, v, r⟩ := f
    cases e <;> cases r <;> simp
  · have h1 : decide (vb > va) = false := by simp; omega
    have h3 : (vb == va) = false := by simp; omega
    have h5 : (vb != va) = true := by simp; omega
    simp only [h1, h3, h5, Bool.false_eq_true, if_false, Bool.false_and, Bool.and_true]
    generalize flags b a vb va = f
    obtain ⟨e, v, r⟩ := f
    have : ¬ va = vb := by omega
    cases v <;> cases r <;> simp [this]

/-- What `lt` means: the other operand has the higher version and is a valid upgrade. -/
theorem cmpGen_lt_iff (flags : α → α → Nat → Nat → Flags) (a b : α) (va vb : Nat) :
    cmpGen va vb flags a b = .lt ↔
      va < vb ∧ (flags a b va vb).raised = false ∧ (flags a b va vb).valid = true := by
  unfold cmpGen
  rcases Nat.lt_trichotomy va vb with h | h | h
  · have h1 : decide (vb > va) = true := by simpa using h
    have h3 : (vb == va) = false := by simp; omega
    have h5 : (vb != va) = true := by simp; omega
    simp only [h1, h3, h5, if_true, Bool.false_and, Bool.false_eq_true, if_false, Bool.and_true, h, true_and]
    generalize flags a b va vb = f
    obtain ⟨e, v, r⟩ := f
    cases v <;> cases r <;> simp
  · subst h
    have h1 : decide (va > va) = false := by simp
    simp only [h1, Bool.false_eq_true, if_false, beq_self_eq_true, Bool.true_and, bne_self_eq_false,
      Bool.and_false, Nat.lt_irrefl, false_and, iff_false]
    generalize flags b a va va = f
    obtain ⟨e, v, r⟩ := f
    cases e <;> cases r <;> simp
  · have h1 : decide (vb > va) = false := by simp; omega
    have h3 : (vb == va) = false := by simp; omega
    have h5 : (vb != va) = true := by simp; omega
    have hn : ¬ va < vb := by omega
    simp only [h1, h3, h5, Bool.false_eq_true, if_false, Bool.false_and, Bool.and_true, hn, false_and, iff_false]
    generalize flags b a vb va = f
    obtain ⟨e, v, r⟩ := f
    cases v <;> cases r <;> simp

/-! ### folding nested comparisons -/

def subAll (f : Flags) (rs : List Cmp) : Flags := rs.foldl Flags.sub f

theorem cmp_beq_facts :
    (Cmp.eq == Cmp.incompat) = false ∧ (Cmp.lt == Cmp.incompat) = false ∧ (Cmp.gt == Cmp.incompat) = false ∧
    (Cmp.incompat == Cmp.incompat) = true ∧ (Cmp.eq == Cmp.eq) = true ∧ (Cmp.lt == Cmp.eq) = false ∧
    (Cmp.gt == Cmp.eq) = false ∧ (Cmp.incompat == Cmp.eq) = false ∧ (Cmp.eq != Cmp.gt) = true ∧
    (Cmp.lt != Cmp.gt) = true ∧ (Cmp.gt != Cmp.gt) = false ∧ (Cmp.incompat != Cmp.gt) = true := by decide

theorem subAll_raised (f : Flags) (rs : List Cmp) :
    (subAll f rs).raised = (f.raised || rs.any (· == .incompat)) := by
  unfold subAll
  induction rs generalizing f with
  | nil => simp
  | cons r rs ih =>
    simp only [List.foldl_cons, List.any_cons]
    rw [ih]
    obtain ⟨h1, h2, h3, h4, _⟩ := cmp_beq_facts
    cases r <;> simp [Flags.sub, h1, h2, h3, h4]

theorem subAll_equal (f : Flags) (rs : List Cmp) :
    (subAll f rs).equal = (f.equal && rs.all (fun r => r == .eq || r == .incompat)) := by
  unfold subAll
  induction rs generalizing f with
  | nil => simp
  | cons r rs ih =>
    simp only [List.foldl_cons, List.all_cons]
    rw [ih]
    obtain ⟨h1, h2, h3, h4, h5, h6, h7, h8, _⟩ := cmp_beq_facts
    cases r <;> simp [Flags.sub, h1, h2, h3, h4, h5, h6, h7, h8]

theorem subAll_valid (f : Flags) (rs : List Cmp) :
    (subAll f rs).valid = (f.valid && rs.all (· != .gt)) := by
  unfold subAll
  induction rs generalizing f with
  | nil => simp
  | cons r rs ih =>
    simp only [List.foldl_cons, List.all_cons]
    rw [ih]
    obtain ⟨_, _, _, _, _, _, _, _, h9, h10, h11, h12⟩ := cmp_beq_facts
    cases r <;> simp [Flags.sub, h9, h10, h11, h12]

/-- The pairs (old definition, new definition) with a common key, in the order of `new`. -/
def common (key : α → String) (old new : List α) : List (α × α) :=
  new.filterMap fun a => (findBy key (key a) old).map fun o => (o, a)

theorem subFold_eq (key : α → String) (cmp : α → α → Cmp) (old new : List α) (f : Flags) :
    subFold key cmp old new f = subAll f ((common key old new).map fun p => cmp p.1 p.2) := by
  unfold subFold subAll common
  induction new generalizing f with
  | nil => rfl
  | cons a r ih =>
    simp only [List.foldl_cons, List.filterMap_cons]
    cases h : findBy key (key a) old with
    | none => simp only [Option.map_none]; exact ih f
    | some o => simp only [Option.map_some, List.map_cons, List.foldl_cons]; exact ih _

theorem findBy_some {key : α → String} {n : String} : ∀ {l : List α} {o : α},
    findBy key n l = some o → o ∈ l ∧ key o = n
  | [], _, h => by cases h
  | a :: r, o, h => by
    simp only [findBy] at h
    by_cases hk : (key a == n) = true
    · rw [if_pos hk] at h; cases h; exact ⟨by simp, by simpa using hk⟩
    · rw [if_neg hk] at h
      have := findBy_some h
      exact ⟨List.mem_cons_of_mem _ this.1, this.2⟩

theorem findBy_of_mem {key : α → String} : ∀ {l : List α} {o : α},
    (l.map key).Nodup → o ∈ l → findBy key (key o) l = some o
  | [], _, _, h => by cases h
  | a :: r, o, hn, h => by
    simp only [List.map_cons, List.nodup_cons] at hn
    simp only [findBy]
    rcases List.mem_cons.mp h with rfl | h'
    · simp
    · have : (key a == key o) = false := by
        apply beq_eq_false_iff_ne.mpr
        intro e
        exact hn.1 (e ▸ List.mem_map_of_mem h')
      rw [this]
      exact findBy_of_mem hn.2 h'

/-- With unique keys, the common pairs are exactly the pairs of definitions with equal keys. -/
theorem mem_common (key : α → String) (old new : List α) (ho : (old.map key).Nodup) (o a : α) :
    (o, a) ∈ common key old new ↔ o ∈ old ∧ a ∈ new ∧ key o = key a := by
  unfold common
  simp only [List.mem_filterMap, Option.map_eq_some_iff, Prod.mk.injEq]
  constructor
  · rintro ⟨a', ha', o', ho', rfl, rfl⟩
    have := findBy_some ho'
    exact ⟨this.1, ha', this.2⟩
  · rintro ⟨h1, h2, h3⟩
    exact ⟨a, h2, o, by rw [← h3]; exact findBy_of_mem ho h1, rfl, rfl⟩

theorem mem_common_swap (key : α → String) (old new : List α) (ho : (old.map key).Nodup)
    (hn : (new.map key).Nodup) (o a : α) :
    (o, a) ∈ common key old new ↔ (a, o) ∈ common key new old := by
  rw [mem_common key old new ho, mem_common key new old hn]
  constructor
  · rintro ⟨h1, h2, h3⟩; exact ⟨h2, h1, h3.symm⟩
  · rintro ⟨h1, h2, h3⟩; exact ⟨h2, h1, h3.symm⟩

end Edxml.Ont

namespace Edxml.Ont

/-! ### normal form of flag accumulation -/

/-- Every accumulation step and-s something into `equal` and `valid` and or-s something into
`raised`. -/
def Flags.ap (f : Flags) (e v r : Bool) : Flags := ⟨f.equal && e, f.valid && v, f.raised || r⟩

theorem andEqual_ap (f : Flags) (b : Bool) : f.andEqual b = f.ap b true false := by
  cases f; simp [Flags.andEqual, Flags.ap]

theorem frozen_ap (f : Flags) (s : Bool) : f.frozen s = f.ap s s false := by
  cases f; cases s <;> simp [Flags.frozen, Flags.ap]

theorem mono_ap (f : Flags) (s ok : Bool) : f.mono s ok = f.ap s (s || ok) false := by
  cases f; cases s <;> simp [Flags.mono, Flags.ap]

theorem ap_ap (f : Flags) (e1 v1 r1 e2 v2 r2 : Bool) :
    (f.ap e1 v1 r1).ap e2 v2 r2 = f.ap (e1 && e2) (v1 && v2) (r1 || r2) := by
  cases f; simp [Flags.ap, Bool.and_assoc, Bool.or_assoc]

def okEq (c : Cmp) : Bool := c == .eq || c == .incompat

theorem subAll_ap (f : Flags) (rs : List Cmp) :
    subAll f rs = f.ap (rs.all okEq) (rs.all (· != .gt)) (rs.any (· == .incompat)) := by
  have h1 := subAll_equal f rs
  have h2 := subAll_valid f rs
  have h3 := subAll_raised f rs
  cases hs : subAll f rs with
  | mk e v r =>
    rw [hs] at h1 h2 h3
    simp only at h1 h2 h3
    simp only [Flags.ap, Flags.mk.injEq]
    exact ⟨h1, h2, h3⟩

theorem sub_ap (f : Flags) (c : Cmp) : f.sub c = f.ap (okEq c) (c != .gt) (c == .incompat) := by
  have := subAll_ap f [c]
  simpa [subAll] using this

theorem subFold_ap (key : α → String) (cmp : α → α → Cmp) (old new : List α) (f : Flags) :
    subFold key cmp old new f =
      f.ap (((common key old new).map fun p => cmp p.1 p.2).all okEq)
           (((common key old new).map fun p => cmp p.1 p.2).all (· != .gt))
           (((common key old new).map fun p => cmp p.1 p.2).any (· == .incompat)) := by
  rw [subFold_eq, subAll_ap]

theorem ap_fields (e v r : Bool) :
    (({} : Flags).ap e v r).equal = e ∧ (({} : Flags).ap e v r).valid = v ∧ (({} : Flags).ap e v r).raised = r := by
  simp [Flags.ap]

theorem okEq_flip (c : Cmp) : okEq c.flip = okEq c := by cases c <;> rfl
theorem incompat_flip (c : Cmp) : (c.flip == Cmp.incompat) = (c == Cmp.incompat) := by cases c <;> rfl

/-- With unique keys and an antisymmetric element comparison, whether some common pair is
incompatible, and whether all common pairs are equal, does not depend on which side is "old". -/
theorem common_symm (key : α → String) (cmp cmp' : α → α → Cmp) (old new : List α)
    (ho : (old.map key).Nodup) (hn : (new.map key).Nodup)
    (hflip : ∀ o ∈ old, ∀ a ∈ new, cmp' a o = (cmp o a).flip) :
    (((common key old new).map fun p => cmp p.1 p.2).any (· == .incompat)
      = ((common key new old).map fun p => cmp' p.1 p.2).any (· == .incompat)) ∧
    (((common key old new).map fun p => cmp p.1 p.2).all okEq
      = ((common key new old).map fun p => cmp' p.1 p.2).all okEq) := by
  constructor
  · rw [Bool.eq_iff_iff]
    simp only [List.any_eq_true, List.mem_map, Prod.exists]
    constructor
    · rintro ⟨c, ⟨o, a, hm, rfl⟩, hc⟩
      have hm' := (mem_common_swap key old new ho hn o a).mp hm
      have := (mem_common key old new ho o a).mp hm
      exact ⟨_, ⟨a, o, hm', rfl⟩, by rw [hflip o this.1 a this.2.1, incompat_flip]; exact hc⟩
    · rintro ⟨c, ⟨a, o, hm, rfl⟩, hc⟩
      have hm' := (mem_common_swap key old new ho hn o a).mpr hm
      have := (mem_common key old new ho o a).mp hm'
      refine ⟨_, ⟨o, a, hm', rfl⟩, ?_⟩
      rw [hflip o this.1 a this.2.1, incompat_flip] at hc; exact hc
  · rw [Bool.eq_iff_iff]
    simp only [List.all_eq_true, List.mem_map, Prod.exists]
    constructor
    · intro h c hc
      obtain ⟨a, o, hm, rfl⟩ := hc
      have hm' := (mem_common_swap key old new ho hn o a).mpr hm
      have := (mem_common key old new ho o a).mp hm'
      rw [hflip o this.1 a this.2.1, okEq_flip]
      exact h _ ⟨o, a, hm', rfl⟩
    · intro h c hc
      obtain ⟨o, a, hm, rfl⟩ := hc
      have hm' := (mem_common_swap key old new ho hn o a).mp hm
      have := (mem_common key old new ho o a).mp hm
      have := h _ ⟨a, o, hm', rfl⟩
      rw [hflip o ‹o ∈ old ∧ a ∈ new ∧ key o = key a›.1 a ‹o ∈ old ∧ a ∈ new ∧ key o = key a›.2.1, okEq_flip] at this
      exact this

theorem keysEq_comm (a b : List String) : keysEq a b = keysEq b a := by
  unfold keysEq; rw [Bool.and_comm]

end Edxml.Ont
