/-
Lemmas about the model of graph construction (`EdxmlModel/Miner/Construct.lean`).
-/
import EdxmlModel.Miner.Construct
namespace Edxml.Miner.Construct

theorem mem_relationProps {et : EtDef} {x : String} :
    x ∈ relationProps et ↔ ∃ r ∈ et.rels, r.isConcept = true ∧ (x = r.source ∨ x = r.target) := by
  unfold relationProps
  simp only [List.mem_flatMap, List.mem_filter, List.mem_cons, List.not_mem_nil, or_false]
  constructor
  · rintro ⟨r, ⟨hr, hc⟩, hx⟩
    exact ⟨r, hr, hc, hx⟩
  · rintro ⟨r, hr, hc, hx⟩
    exact ⟨r, ⟨hr, hc⟩, hx⟩

theorem mem_sourceNodes {k : Nat} {r : RelDef} {ev : Ev} {n : NodeId} :
    n ∈ sourceNodes k r ev ↔ ∃ v ∈ objects ev r.source, n = ⟨k, r.source, r.sc, v⟩ := by
  unfold sourceNodes
  simp only [List.mem_map]
  constructor
  · rintro ⟨v, hv, rfl⟩; exact ⟨v, hv, rfl⟩
  · rintro ⟨v, hv, rfl⟩; exact ⟨v, hv, rfl⟩

theorem mem_targetNodes {k : Nat} {r : RelDef} {ev : Ev} {n : NodeId} :
    n ∈ targetNodes k r ev ↔ ∃ v ∈ objects ev r.target, n = ⟨k, r.target, r.tc, v⟩ := by
  unfold targetNodes
  simp only [List.mem_map]
  constructor
  · rintro ⟨v, hv, rfl⟩; exact ⟨v, hv, rfl⟩
  · rintro ⟨v, hv, rfl⟩; exact ⟨v, hv, rfl⟩

theorem mem_plainNodes {k : Nat} {et : EtDef} {ev : Ev} {n : NodeId} :
    n ∈ plainNodes k et ev ↔
      ∃ p ∈ et.props, p.name ∉ relationProps et ∧ ∃ c ∈ p.assocs, ∃ v ∈ objects ev p.name, n = ⟨k, p.name, c, v⟩ := by
  unfold plainNodes
  simp only [List.mem_flatMap, List.mem_filter, List.mem_map, Bool.not_eq_true', List.contains_eq_mem,
    decide_eq_false_iff_not]
  constructor
  · rintro ⟨p, ⟨hp, hnot⟩, c, hc, v, hv, rfl⟩
    exact ⟨p, hp, hnot, c, hc, v, hv, rfl⟩
  · rintro ⟨p, hp, hnot, c, hc, v, hv, rfl⟩
    exact ⟨p, ⟨hp, hnot⟩, c, hc, v, hv, rfl⟩

theorem mem_eventNodes {k : Nat} {et : EtDef} {ev : Ev} {n : NodeId} :
    n ∈ eventNodes k et ev ↔
      (∃ r ∈ et.rels, r.isConcept = true ∧ (n ∈ sourceNodes k r ev ∨ n ∈ targetNodes k r ev)) ∨ n ∈ plainNodes k et ev := by
  unfold eventNodes relNodes
  simp only [List.mem_append, List.mem_flatMap, List.mem_filter]
  constructor
  · rintro (⟨r, ⟨hr, hc⟩, h⟩ | h)
    · exact Or.inl ⟨r, hr, hc, h⟩
    · exact Or.inr h
  · rintro (⟨r, hr, hc, h⟩ | h)
    · exact Or.inl ⟨r, ⟨hr, hc⟩, h⟩
    · exact Or.inr h

theorem mem_relLinks {k : Nat} {r : RelDef} {ev : Ev} {l : Link} :
    l ∈ relLinks k r ev ↔
      ∃ s ∈ sourceNodes k r ev, ∃ t ∈ targetNodes k r ev, s ≠ t ∧ (l = ⟨s, t⟩ ∨ l = ⟨t, s⟩) := by
  unfold relLinks
  simp only [List.mem_flatMap]
  constructor
  · rintro ⟨s, hs, t, ht, h⟩
    by_cases hst : s = t
    · simp [hst] at h
    · simp only [hst, if_false, List.mem_cons, List.not_mem_nil, or_false] at h
      exact ⟨s, hs, t, ht, hst, h⟩
  · rintro ⟨s, hs, t, ht, hst, h⟩
    refine ⟨s, hs, t, ht, ?_⟩
    simp only [hst, if_false, List.mem_cons, List.not_mem_nil, or_false]
    exact h

end Edxml.Miner.Construct
