/-
Lemmas for the tree level of the ontology codec (`EdxmlModel/Ontology/XmlTree.lean`): `mapM` over
fixed points, sorting by a string key.
-/
import EdxmlModel.Ontology.XmlTree
namespace EdxmlProps.XmlTree
open Edxml Edxml.Codec

theorem mapM_fixed {α} (f : α → Option α) : ∀ (l : List α), (∀ x ∈ l, f x = some x) → l.mapM f = some l
  | [], _ => rfl
  | x :: l, h => by
    rw [List.mapM_cons, h x (by simp), mapM_fixed f l (fun y hy => h y (by simp [hy]))]
    rfl

theorem mapM_mem {α β} (f : α → Option β) : ∀ (l : List α) (r : List β), l.mapM f = some r →
    ∀ y ∈ r, ∃ x ∈ l, f x = some y
  | [], r, h, y, hy => by
    simp only [List.mapM_nil, Option.pure_def, Option.some.injEq] at h
    subst h
    cases hy
  | x :: l, r, h, y, hy => by
    rw [List.mapM_cons] at h
    cases hx : f x with
    | none => rw [hx] at h; cases h
    | some z =>
      rw [hx] at h
      cases hl : l.mapM f with
      | none => rw [hl] at h; cases h
      | some zs =>
        rw [hl] at h
        have : r = z :: zs := by
          have : some (z :: zs) = some r := h
          exact (Option.some.inj this).symm
        subst this
        rcases List.mem_cons.mp hy with rfl | hy'
        · exact ⟨x, by simp, hx⟩
        · obtain ⟨x', hx', hf⟩ := mapM_mem f l zs hl y hy'
          exact ⟨x', by simp [hx'], hf⟩

theorem mapM_length {α β} (f : α → Option β) : ∀ (l : List α) (r : List β), l.mapM f = some r → r.length = l.length
  | [], r, h => by
    simp only [List.mapM_nil, Option.pure_def, Option.some.injEq] at h
    subst h; rfl
  | x :: l, r, h => by
    rw [List.mapM_cons] at h
    cases hx : f x with
    | none => rw [hx] at h; cases h
    | some z =>
      rw [hx] at h
      cases hl : l.mapM f with
      | none => rw [hl] at h; cases h
      | some zs =>
        rw [hl] at h
        have : r = z :: zs := by
          have : some (z :: zs) = some r := h
          exact (Option.some.inj this).symm
        subst this
        simp [mapM_length f l zs hl]

section sorting
variable {α : Type} (key : α → String)

theorem le_trans' (a b c : α) : decide (key a ≤ key b) = true → decide (key b ≤ key c) = true →
    decide (key a ≤ key c) = true := by
  simp only [decide_eq_true_eq]
  exact String.le_trans

theorem le_total' (a b : α) : (decide (key a ≤ key b) || decide (key b ≤ key a)) = true := by
  simp only [Bool.or_eq_true, decide_eq_true_eq]
  exact String.le_total _ _

theorem sortBy_perm (l : List α) : (sortBy key l).Perm l := List.mergeSort_perm l _

theorem mem_sortBy (l : List α) (x : α) : x ∈ sortBy key l ↔ x ∈ l := (sortBy_perm key l).mem_iff

theorem sortBy_sorted (l : List α) : (sortBy key l).Pairwise fun x y => key x ≤ key y := by
  have := List.pairwise_mergeSort (le := fun x y => decide (key x ≤ key y)) (le_trans' key) (le_total' key) l
  exact this.imp (fun h => by simpa using h)

theorem sortBy_idem (l : List α) : sortBy key (sortBy key l) = sortBy key l := by
  unfold sortBy
  apply List.mergeSort_of_pairwise
  exact List.pairwise_mergeSort (le := fun x y => decide (key x ≤ key y)) (le_trans' key) (le_total' key) l

end sorting

end EdxmlProps.XmlTree
