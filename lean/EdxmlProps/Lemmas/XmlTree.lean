/-
Lemmas for the tree level of the ontology codec (`EdxmlModel/Ontology/XmlTree.lean`): `mapM` over
fixed points, sorting by a string key.
-/
import EdxmlModel.Ontology.XmlTree
namespace EdxmlProps.XmlTree
open Edxml Edxml.Codec

theorem mapM_fixed {α} (f : α → Option α) : ∀ (l : List α), (∀ x ∈ l, f x = some x) → l.mapM f = some l
  | [], _ => rfl
  | x :: l, h => by
    rw [List.mapM_cons, h x (by simp), mapM_fixed f l (fun y hy => h y (by simp [hy]))]
    rfl

theorem mapM_mem {α β} (f : α → Option β) : ∀ (l : List α) (r : List β), l.mapM f = some r →
    ∀ y ∈ r, ∃ x ∈ l, f x = some y
  | [], r, h, y, hy => by
    simp only [List.mapM_nil, Option.pure_def, Option.some.injEq] at h
    subst h
    cases hy
  | x :: l, r, h, y, hy => by
    rw [List.mapM_cons] at h
    cases hx : f x with
    | none => rw [hx] at h; cases h
    | some z =>
      rw [hx] at h
      cases hl : l.mapM f with
      | none => rw [hl] at h; cases h
      | some zs =>
        rw [hl] at h
        have : r = z :: zs := by
          have : some (z :: zs) = some r := h
          exact (Option.some.inj this).symm
        subst this
        rcases List.mem_cons.mp hy with rfl | hy'
        · exact ⟨x, by simp, hx⟩
        · obtain ⟨x', hx', hf⟩ := mapM_mem f l zs hl y hy'
          exact ⟨x', by simp [hx'], hf⟩

theorem mapM_length {α β} (f : α → Option β) : ∀ (l : List α) (r : List β), l.mapM f = some r → r.length = l.length
  | [], r, h => by
    simp only [List.mapM_nil, Option.pure_def, Option.some.injEq] at h
    subst h; rfl
  | x :: l, r, h => by
    rw [List.mapM_cons] at h
    cases hx : f x with
    | none => rw [hx] at h; cases h
    | some z =>
      rw [hx] at h
      cases hl : l.mapM f with
      | none => rw [hl] at h; cases h
      | some zs =>
        rw [hl] at h
        have : r = z :: zs := by
          have : some (z :: zs) = some r := h
          exact (Option.some.inj this).symm
        subst this
        simp [mapM_length f l zs hl]

section sorting
variable {α : Type} (key : α → String)

theorem le_trans' (a b c : α) : decide (key a ≤ key b) = true → decide (key b ≤ key c) = true →
    decide (key a ≤ key c) = true := by
  simp only [decide_eq_true_eq]
  exact String.le_trans

theorem le_total' (a b : α) : (decide (key a ≤ key b) || decide (key b ≤ key a)) = true := by
  simp only [Bool.or_eq_true, decide_eq_true_eq]
  exact String.le_total _ _

theorem sortBy_perm (l : List α) : (sortBy key l).Perm l := List.mergeSort_perm l _

theorem mem_sortBy (l : List α) (x : α) : x ∈ sortBy key l ↔ x ∈ l := (sortBy_perm key l).mem_iff

theorem sortBy_sorted (l : List α) : (sortBy key l).Pairwise fun x y => key x ≤ key y := by
  have := List.pairwise_mergeSort (le := fun x y => decide (key x ≤ key y)) (le_trans' key) (le_total' key) l
  exact this.imp (fun h => by simpa using h)

theorem sortBy_idem (l : List α) : sortBy key (sortBy key l) = sortBy key l := by
  unfold sortBy
  apply List.mergeSort_of_pairwise
  exact List.pairwise_mergeSort (le := fun x y => decide (key x ≤ key y)) (le_trans' key) (le_total' key) l

/-- sorting forgets the order of the input, when no two members share a key -/
theorem sortBy_perm_eq (l₁ l₂ : List α) (hp : l₁.Perm l₂)
    (hinj : ∀ x ∈ l₁, ∀ y ∈ l₁, key x = key y → x = y) : sortBy key l₁ = sortBy key l₂ := by
  apply List.Perm.eq_of_pairwise (le := fun x y => key x ≤ key y)
  · intro a b ha hb hab hba
    have ha' : a ∈ l₁ := (mem_sortBy key l₁ a).mp ha
    have hb' : b ∈ l₁ := hp.symm.subset ((mem_sortBy key l₂ b).mp hb)
    exact hinj a ha' b hb' (String.le_antisymm hab hba)
  · exact sortBy_sorted key l₁
  · exact sortBy_sorted key l₂
  · exact ((sortBy_perm key l₁).trans hp).trans (sortBy_perm key l₂).symm

end sorting

/-- `mapM` over a permutation: it fails or succeeds alike, and the results are permutations -/
theorem mapM_perm {α β} (f : α → Option β) {l₁ l₂ : List α} (hp : l₁.Perm l₂) :
    (l₁.mapM f = none ↔ l₂.mapM f = none) ∧ ∀ r₁ r₂, l₁.mapM f = some r₁ → l₂.mapM f = some r₂ → r₁.Perm r₂ := by
  induction hp with
  | nil => exact ⟨Iff.rfl, fun r₁ r₂ h1 h2 => by
      simp only [List.mapM_nil, Option.pure_def, Option.some.injEq] at h1 h2
      subst h1; subst h2; exact List.Perm.refl _⟩
  | @cons x la lb _ ih =>
    constructor
    · simp only [List.mapM_cons]
      cases hx : f x with
      | none => simp
      | some y =>
        cases ha : la.mapM f with
        | none =>
          have := ih.1.mp ha
          simp [this]
        | some ra =>
          cases hb : lb.mapM f with
          | none =>
            have := ih.1.mpr hb
            rw [ha] at this
            cases this
          | some rb => simp
    · intro r₁ r₂ h1 h2
      rw [List.mapM_cons] at h1 h2
      cases hx : f x with
      | none => rw [hx] at h1; cases h1
      | some y =>
        rw [hx] at h1 h2
        cases ha : la.mapM f with
        | none => rw [ha] at h1; cases h1
        | some ra =>
          cases hb : lb.mapM f with
          | none => rw [hb] at h2; cases h2
          | some rb =>
            rw [ha] at h1
            rw [hb] at h2
            have e1 : r₁ = y :: ra := by
              have : some (y :: ra) = some r₁ := h1
              exact (Option.some.inj this).symm
            have e2 : r₂ = y :: rb := by
              have : some (y :: rb) = some r₂ := h2
              exact (Option.some.inj this).symm
            subst e1; subst e2
            exact (ih.2 ra rb ha hb).cons y
  | swap x y l =>
    constructor
    · simp only [List.mapM_cons]
      cases hx : f x <;> cases hy : f y <;> cases hl : l.mapM f <;> simp
    · intro r₁ r₂ h1 h2
      simp only [List.mapM_cons] at h1 h2
      cases hx : f x with
      | none => rw [hx] at h1; simp at h1
      | some a =>
        cases hy : f y with
        | none => rw [hy] at h1; simp at h1
        | some b =>
          cases hl : l.mapM f with
          | none => rw [hx, hy, hl] at h1; simp at h1
          | some r =>
            rw [hx, hy, hl] at h1 h2
            simp only [Option.bind_eq_bind, Option.bind_some, Option.pure_def, Option.some.injEq] at h1 h2
            subst h1; subst h2
            exact List.Perm.swap a b r
  | @trans la lb lc _ _ ih1 ih2 =>
    constructor
    · exact ih1.1.trans ih2.1
    · intro r₁ r₃ h1 h3
      cases hb : lb.mapM f with
      | none =>
        have := ih1.1.mpr hb
        rw [h1] at this
        cases this
      | some r₂ => exact (ih1.2 r₁ r₂ h1 hb).trans (ih2.2 r₂ r₃ hb h3)


end EdxmlProps.XmlTree
