/-
Facts about the model's UTF-8 encoder: no byte 0xFF (indeed none ≥ 0xF8), ASCII bytes only
come from ASCII characters, and the encoding is injective.
-/
import EdxmlModel.Basic.Bytes
namespace Edxml

theorem u8_ofNat_eq {a b : Nat} (ha : a < 256) (hb : b < 256) :
    UInt8.ofNat a = UInt8.ofNat b ↔ a = b := by
  constructor
  · intro h
    have := congrArg UInt8.toNat h
    simp [UInt8.toNat_ofNat'] at this
    omega
  · intro h; rw [h]

theorem u8_ofNat_toNat {a : Nat} (ha : a < 256) : (UInt8.ofNat a).toNat = a := by
  simp [UInt8.toNat_ofNat']; omega

theorem char_lt (c : Char) : c.toNat < 0x110000 := by
  have := c.valid
  rcases this with h | ⟨_, h⟩
  · show c.val.toNat < _; omega
  · show c.val.toNat < _; omega

/-- Every byte the encoder emits is below 0xF8; in particular never 0xFF. -/
theorem utf8Char_lt (c : Char) : ∀ b ∈ utf8Char c, b.toNat < 0xF8 := by
  have hc := char_lt c
  intro b hb
  unfold utf8Char at hb
  simp only at hb
  split at hb
  · simp only [List.mem_cons, List.not_mem_nil, or_false] at hb; subst hb; rw [u8_ofNat_toNat (by omega)]; omega
  · split at hb
    · simp only [List.mem_cons, List.not_mem_nil, or_false] at hb; rcases hb with rfl | rfl <;> rw [u8_ofNat_toNat (by omega)] <;> omega
    · split at hb
      · simp only [List.mem_cons, List.not_mem_nil, or_false] at hb; rcases hb with rfl | rfl | rfl <;> rw [u8_ofNat_toNat (by omega)] <;> omega
      · simp only [List.mem_cons, List.not_mem_nil, or_false] at hb; rcases hb with rfl | rfl | rfl | rfl <;> rw [u8_ofNat_toNat (by omega)] <;> omega

/-- A byte below 0x80 in the output is the character itself. -/
theorem utf8Char_ascii (c : Char) : ∀ b ∈ utf8Char c, b.toNat < 0x80 → c.toNat = b.toNat := by
  have hc := char_lt c
  intro b hb hlt
  unfold utf8Char at hb
  simp only at hb
  split at hb
  · simp only [List.mem_cons, List.not_mem_nil, or_false] at hb; subst hb; rw [u8_ofNat_toNat (by omega)]
  · split at hb
    · simp only [List.mem_cons, List.not_mem_nil, or_false] at hb; rcases hb with rfl | rfl <;> rw [u8_ofNat_toNat (by omega)] at hlt <;> omega
    · split at hb
      · simp only [List.mem_cons, List.not_mem_nil, or_false] at hb; rcases hb with rfl | rfl | rfl <;> rw [u8_ofNat_toNat (by omega)] at hlt <;> omega
      · simp only [List.mem_cons, List.not_mem_nil, or_false] at hb
        rcases hb with rfl | rfl | rfl | rfl <;> rw [u8_ofNat_toNat (by omega)] at hlt <;> omega

theorem utf8_lt (s : String) : ∀ b ∈ utf8 s, b.toNat < 0xF8 := by
  intro b hb
  simp only [utf8, List.mem_flatMap] at hb
  obtain ⟨c, _, hc⟩ := hb
  exact utf8Char_lt c b hc

theorem utf8_no_ff (s : String) : (0xFF : UInt8) ∉ utf8 s := by
  intro h
  have := utf8_lt s _ h
  simp at this

/-- If byte `b < 0x80` occurs in the encoding of `s` then the character with that code occurs in `s`. -/
theorem utf8_ascii_mem (s : String) (b : UInt8) (hb : b ∈ utf8 s) (hlt : b.toNat < 0x80) :
    ∃ c ∈ s.toList, c.toNat = b.toNat := by
  simp only [utf8, List.mem_flatMap] at hb
  obtain ⟨c, hc, hbc⟩ := hb
  exact ⟨c, hc, utf8Char_ascii c b hbc hlt⟩

theorem char_eq_of_toNat {c d : Char} (h : c.toNat = d.toNat) : c = d := by
  apply Char.ext
  apply UInt32.toNat_inj.mp
  exact h

/-- The encoder is prefix-free: the first character and the rest can be recovered. -/
theorem utf8Char_append_inj (c d : Char) (r r' : Bytes)
    (h : utf8Char c ++ r = utf8Char d ++ r') : c = d ∧ r = r' := by
  have hc := char_lt c
  have hd := char_lt d
  have key : c.toNat = d.toNat ∧ r = r' := by
    unfold utf8Char at h
    simp only at h
    split at h <;> split at h
    all_goals (try split at h)
    all_goals (try split at h)
    all_goals (try split at h)
    all_goals (try split at h)
    all_goals
      simp only [List.cons_append, List.nil_append, List.cons.injEq] at h
    all_goals
      (repeat (first
        | rw [u8_ofNat_eq (by omega) (by omega)] at h))
    all_goals (first | omega | (refine ⟨by omega, ?_⟩; first | exact h.2.2.2.2 | exact h.2.2.2 | exact h.2.2 | exact h.2))
  exact ⟨char_eq_of_toNat key.1, key.2⟩

theorem utf8_list_injective : ∀ (s t : List Char), s.flatMap utf8Char = t.flatMap utf8Char → s = t
  | [], [], _ => rfl
  | [], d :: t, h => by
    simp only [List.flatMap_nil, List.flatMap_cons] at h
    have : (utf8Char d ++ List.flatMap utf8Char t).length = 0 := by rw [← h]; rfl
    have hl : 0 < (utf8Char d).length := by
      unfold utf8Char; simp only; split <;> (try split) <;> (try split) <;> simp
    rw [List.length_append] at this; omega
  | c :: s, [], h => by
    simp only [List.flatMap_nil, List.flatMap_cons] at h
    have : (utf8Char c ++ List.flatMap utf8Char s).length = 0 := by rw [h]; rfl
    have hl : 0 < (utf8Char c).length := by
      unfold utf8Char; simp only; split <;> (try split) <;> (try split) <;> simp
    rw [List.length_append] at this; omega
  | c :: s, d :: t, h => by
    simp only [List.flatMap_cons] at h
    obtain ⟨rfl, hr⟩ := utf8Char_append_inj c d _ _ h
    rw [utf8_list_injective s t hr]

/-- `str.encode()` is injective: different strings have different byte strings. -/
theorem utf8_injective (s t : String) (h : utf8 s = utf8 t) : s = t :=
  String.toList_inj.mp (utf8_list_injective _ _ h)

end Edxml
