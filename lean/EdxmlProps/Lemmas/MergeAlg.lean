/-
Algebra of merging: the merged objects of a property as a function of the list of the
instances' object sets, and the "partial merges may be merged" law.
-/
import EdxmlProps.Lemmas.Merge
namespace Edxml

/-- First non-empty object set. -/
def firstNE : List (List String) → List String
  | [] => []
  | o :: os => if o.isEmpty then firstNE os else o

/-- `mergeProp` through the list of per-instance object sets. -/
def mergeObjs (st : Strategy) (numeric : Bool) (os : List (List String)) : List String :=
  match st with
  | .min => (pyMin (keyLe numeric) os.flatten).toList
  | .max => (pyMax (keyLe numeric) os.flatten).toList
  | .add => canonS os.flatten
  | .replace => os.getLast?.getD []
  | .set | .any | .match_ => firstNE os

theorem firstNonEmpty_eq (p : String) (es : List Event) :
    firstNonEmpty p es = firstNE (es.map (·.objects p)) := by
  induction es with
  | nil => rfl
  | cons e es ih => simp only [firstNonEmpty, List.map_cons, firstNE, ih]

theorem mergeProp_eq (s : PropSpec) (es : List Event) :
    mergeProp s es = mergeObjs s.merge s.numeric (es.map (·.objects s.name)) := by
  unfold mergeProp mergeObjs
  simp only [List.flatMap_def]
  cases s.merge <;> simp only [firstNonEmpty_eq]
  · -- replace
    rw [List.getLast?_map]
    cases es.getLast? <;> rfl

theorem firstNE_append (a b : List (List String)) :
    firstNE (a ++ b) = if (firstNE a).isEmpty then firstNE b else firstNE a := by
  induction a with
  | nil => simp [firstNE]
  | cons o os ih =>
    simp only [List.cons_append, firstNE]
    by_cases ho : o.isEmpty = true
    · simp only [ho, if_true]; exact ih
    · simp only [ho, Bool.false_eq_true, if_false]

theorem firstNE_single (o : List String) : firstNE [o] = o := by
  simp only [firstNE]
  by_cases ho : o.isEmpty = true
  · rw [if_pos ho]; exact (List.isEmpty_iff.mp ho).symm
  · rw [if_neg ho]

/-! ### left-biased minimum is associative -/

def lmin (le : α → α → Bool) (a b : α) : α := if le a b then a else b

theorem lmin_assoc (le : α → α → Bool) (hp : TotalPreorder le) (a b c : α) :
    lmin le (lmin le a b) c = lmin le a (lmin le b c) := by
  unfold lmin
  by_cases hab : le a b = true <;> by_cases hbc : le b c = true <;> by_cases hac : le a c = true <;>
    simp only [hab, hbc, hac, if_true, if_false, Bool.false_eq_true]
  · -- a≤b, b≤c, ¬a≤c : impossible
    exact absurd (hp.trans _ _ _ hab hbc) hac
  · -- ¬a≤b, ¬b≤c, a≤c : then b≤a (total), so b ≤ c: contradiction
    have hba : le b a = true := by
      rcases hp.total a b with h | h
      · exact absurd h hab
      · exact h
    exact absurd (hp.trans _ _ _ hba hac) hbc

theorem foldl_lmin_cons (le : α → α → Bool) (hp : TotalPreorder le) (m x : α) (xs : List α) :
    (x :: xs).foldl (lmin le) m = lmin le m (xs.foldl (lmin le) x) := by
  induction xs generalizing m x with
  | nil => rfl
  | cons y ys ih =>
    simp only [List.foldl_cons] at ih ⊢
    rw [ih (lmin le m x) y, ih x y, lmin_assoc le hp]

def optMin (le : α → α → Bool) : Option α → Option α → Option α
  | none, b => b
  | a, none => a
  | some a, some b => some (lmin le a b)

theorem pyMin_eq_foldl (le : α → α → Bool) (x : α) (xs : List α) :
    pyMin le (x :: xs) = some (xs.foldl (lmin le) x) := rfl

theorem pyMin_append (le : α → α → Bool) (hp : TotalPreorder le) (a b : List α) :
    pyMin le (a ++ b) = optMin le (pyMin le a) (pyMin le b) := by
  cases a with
  | nil => cases b <;> rfl
  | cons x xs =>
    cases b with
    | nil => simp only [List.append_nil]; rfl
    | cons y ys =>
      simp only [List.cons_append, pyMin_eq_foldl, optMin, List.foldl_append]
      congr 1
      exact foldl_lmin_cons le hp _ y ys

theorem pyMin_toList (le : α → α → Bool) (o : Option α) : pyMin le o.toList = o := by
  cases o <;> rfl

theorem optMin_assoc (le : α → α → Bool) (hp : TotalPreorder le) (a b c : Option α) :
    optMin le (optMin le a b) c = optMin le a (optMin le b c) := by
  cases a <;> cases b <;> cases c <;> simp only [optMin]
  rw [lmin_assoc le hp]

/-- Replacing a run of instances by their partial minimum does not change the minimum. -/
theorem pyMin_middle (le : α → α → Bool) (hp : TotalPreorder le) (pre xs post : List α) :
    pyMin le (pre ++ (pyMin le xs).toList ++ post) = pyMin le (pre ++ xs ++ post) := by
  rw [pyMin_append le hp, pyMin_append le hp, pyMin_toList, pyMin_append le hp (pre ++ xs),
    pyMin_append le hp pre xs]

theorem pyMax_middle (le : α → α → Bool) (hp : TotalPreorder le) (pre xs post : List α) :
    pyMax le (pre ++ (pyMax le xs).toList ++ post) = pyMax le (pre ++ xs ++ post) := by
  simp only [pyMax_eq_pyMin_flip]
  exact pyMin_middle _ (flip_preorder hp) pre xs post

/-- **Partial merges may be merged.** Replacing a non-empty run `xs` of instances by the merged
object set of that run does not change the merged object set, for every strategy. -/
theorem mergeObjs_middle (st : Strategy) (numeric : Bool) (pre xs post : List (List String))
    (hx : xs ≠ []) :
    mergeObjs st numeric (pre ++ mergeObjs st numeric xs :: post)
      = mergeObjs st numeric (pre ++ xs ++ post) := by
  cases st with
  | min =>
    simp only [mergeObjs, List.flatten_append, List.flatten_cons]
    rw [← List.append_assoc, pyMin_middle _ (keyLe_preorder numeric)]
  | max =>
    simp only [mergeObjs, List.flatten_append, List.flatten_cons]
    rw [← List.append_assoc, pyMax_middle _ (keyLe_preorder numeric)]
  | add =>
    simp only [mergeObjs, List.flatten_append, List.flatten_cons]
    apply (canonS_eq_iff _ _).mpr
    intro a
    simp only [List.mem_append, mem_canonS]
    constructor
    · rintro (h | h | h)
      · exact Or.inl (Or.inl h)
      · exact Or.inl (Or.inr h)
      · exact Or.inr h
    · rintro ((h | h) | h)
      · exact Or.inl h
      · exact Or.inr (Or.inl h)
      · exact Or.inr (Or.inr h)
  | replace =>
    simp only [mergeObjs]
    cases post with
    | nil =>
      simp only [List.append_nil]
      rw [List.getLast?_append, List.getLast?_append]
      have : xs.getLast?.isSome := by
        cases xs with
        | nil => exact absurd rfl hx
        | cons x xs => simp [List.getLast?_cons]
      cases hl : xs.getLast? with
      | none => rw [hl] at this; cases this
      | some l => simp [List.getLast?_singleton]
    | cons q qs =>
      have e1 : pre ++ xs.getLast?.getD [] :: q :: qs = (pre ++ [xs.getLast?.getD []]) ++ (q :: qs) := by simp
      rw [e1, List.getLast?_append, List.getLast?_append]
      cases hq : (q :: qs).getLast? with
      | none => simp at hq
      | some z => simp [hq]
  | set | any | match_ =>
    simp only [mergeObjs]
    have e1 : pre ++ firstNE xs :: post = pre ++ ([firstNE xs] ++ post) := by simp
    rw [e1, firstNE_append, firstNE_append [firstNE xs], firstNE_single,
      List.append_assoc, firstNE_append pre, firstNE_append xs]

end Edxml

namespace Edxml

/-- Merged objects of a group as `mergeGroup` computes them: a group of one instance is passed on
unchanged, larger groups are merged. -/
def mgo (st : Strategy) (numeric : Bool) (g : List (List String)) : List String :=
  match g with
  | [o] => o
  | _ => mergeObjs st numeric g

theorem mgo_of_two (st : Strategy) (numeric : Bool) (a b : List String) (r : List (List String)) :
    mgo st numeric (a :: b :: r) = mergeObjs st numeric (a :: b :: r) := rfl

theorem mgo_long (st : Strategy) (numeric : Bool) (g : List (List String)) (h : 2 ≤ g.length) :
    mgo st numeric g = mergeObjs st numeric g := by
  match g, h with
  | a :: b :: r, _ => rfl

/-- The middle law also holds for `mgo`, including groups of one. -/
theorem mgo_middle (st : Strategy) (numeric : Bool) (pre g post : List (List String)) (hg : g ≠ []) :
    mgo st numeric (pre ++ mgo st numeric g :: post) = mgo st numeric (pre ++ g ++ post) := by
  by_cases hpp : pre = [] ∧ post = []
  · obtain ⟨rfl, rfl⟩ := hpp
    simp only [List.nil_append, List.append_nil]
    rfl
  · have hlen : 1 ≤ pre.length + post.length := by
      cases pre with
      | cons _ _ => simp; omega
      | nil => cases post with
        | cons _ _ => simp
        | nil => exact absurd ⟨rfl, rfl⟩ hpp
    have hglen : 1 ≤ g.length := List.length_pos_iff.mpr hg
    rw [mgo_long _ _ _ (by simp; omega), mgo_long _ _ (pre ++ g ++ post) (by simp; omega)]
    match g, hg with
    | [o], _ => simp [mgo]
    | a :: b :: r, _ =>
      rw [mgo_of_two]
      exact mergeObjs_middle st numeric pre (a :: b :: r) post (by simp)

/-- Replace every non-empty group by its merged objects, dropping empty groups. -/
def collapse (st : Strategy) (numeric : Bool) (gs : List (List (List String))) : List (List String) :=
  gs.flatMap fun g => if g = [] then [] else [mgo st numeric g]

/-- **Batching law**: merging the per-batch merges equals merging everything at once. -/
theorem mgo_collapse (st : Strategy) (numeric : Bool) :
    ∀ (gs : List (List (List String))) (pre : List (List String)),
      mgo st numeric (pre ++ collapse st numeric gs) = mgo st numeric (pre ++ gs.flatten)
  | [], pre => rfl
  | g :: gs, pre => by
    by_cases hg : g = []
    · subst hg
      simp only [collapse, List.flatMap_cons, if_true, List.nil_append, List.flatten_cons]
      exact mgo_collapse st numeric gs pre
    · simp only [collapse, List.flatMap_cons, hg, if_false, List.flatten_cons]
      have ih := mgo_collapse st numeric gs (pre ++ [mgo st numeric g])
      simp only [collapse, List.append_assoc, List.singleton_append] at ih
      rw [List.singleton_append, ih]
      have := mgo_middle st numeric pre g gs.flatten hg
      rw [this, List.append_assoc]

end Edxml
