/-
Unique splitting of byte strings at separators.
-/
import EdxmlModel.Event.Hash
import EdxmlProps.Lemmas.Utf8
namespace Edxml

theorem split_first {α} {c : α} : ∀ {a a' r r' : List α}, c ∉ a → c ∉ a' →
    a ++ c :: r = a' ++ c :: r' → a = a' ∧ r = r'
  | [], [], _, _, _, _, h => by simpa using h
  | [], y :: a', r, r', _, h2, h => by
    simp only [List.nil_append, List.cons_append, List.cons.injEq] at h
    exact absurd h.1 (by intro e; exact h2 (by simp [e]))
  | x :: a, [], r, r', h1, _, h => by
    simp only [List.nil_append, List.cons_append, List.cons.injEq] at h
    exact absurd h.1.symm (by intro e; exact h1 (by simp [e]))
  | x :: a, y :: a', r, r', h1, h2, h => by
    simp only [List.cons_append, List.cons.injEq] at h
    have := split_first (a := a) (a' := a') (fun m => h1 (List.mem_cons_of_mem _ m))
      (fun m => h2 (List.mem_cons_of_mem _ m)) h.2
    exact ⟨by rw [h.1, this.1], this.2⟩

/-- `sep.join` is injective on lists of non-empty byte strings that do not contain 0xFF. -/
theorem joinSep_inj : ∀ (l₁ l₂ : List Bytes),
    (∀ x ∈ l₁, x ≠ [] ∧ (0xFF : UInt8) ∉ x) → (∀ x ∈ l₂, x ≠ [] ∧ (0xFF : UInt8) ∉ x) →
    joinSep objectSeparator l₁ = joinSep objectSeparator l₂ → l₁ = l₂
  | [], [], _, _, _ => rfl
  | [], [y], _, h2, h => by
    simp only [joinSep] at h
    exact absurd h.symm (h2 y (by simp)).1
  | [], y :: y2 :: r, _, h2, h => by
    simp only [joinSep] at h
    have : y = [] := by
      have := congrArg List.length h
      simp only [List.length_append, List.length_nil] at this
      exact List.eq_nil_of_length_eq_zero (by omega)
    exact absurd this (h2 y (by simp)).1
  | [x], [], h1, _, h => by
    simp only [joinSep] at h
    exact absurd h (h1 x (by simp)).1
  | x :: x2 :: r, [], h1, _, h => by
    simp only [joinSep] at h
    have : x = [] := by
      have := congrArg List.length h
      simp only [List.length_append, List.length_nil] at this
      exact List.eq_nil_of_length_eq_zero (by omega)
    exact absurd this (h1 x (by simp)).1
  | [x], [y], _, _, h => by simpa [joinSep] using h
  | [x], y :: y2 :: r, h1, _, h => by
    simp only [joinSep, objectSeparator] at h
    have : (0xFF : UInt8) ∈ x := by rw [h]; simp
    exact absurd this (h1 x (by simp)).2
  | x :: x2 :: r, [y], _, h2, h => by
    simp only [joinSep, objectSeparator] at h
    have : (0xFF : UInt8) ∈ y := by rw [← h]; simp
    exact absurd this (h2 y (by simp)).2
  | x :: x2 :: r, y :: y2 :: r', h1, h2, h => by
    simp only [joinSep, objectSeparator, List.append_assoc, List.cons_append, List.nil_append] at h
    have s := split_first (h1 x (by simp)).2 (h2 y (by simp)).2 h
    have hrest : joinSep objectSeparator (x2 :: r) = joinSep objectSeparator (y2 :: r') := by
      have := s.2
      simp only [List.cons.injEq, true_and] at this
      exact this
    have ih := joinSep_inj (x2 :: r) (y2 :: r')
      (fun z hz => h1 z (List.mem_cons_of_mem _ hz)) (fun z hz => h2 z (List.mem_cons_of_mem _ hz)) hrest
    rw [s.1, ih]

theorem objString_ne_nil (p v : String) : objString p v ≠ [] := by
  simp [objString]

theorem objString_no_ff (p v : String) : (0xFF : UInt8) ∉ objString p v := by
  intro h
  simp only [objString, List.append_assoc, List.mem_append, List.mem_cons, List.not_mem_nil,
    or_false] at h
  rcases h with h | h | h
  · exact utf8_no_ff p h
  · cases h
  · exact utf8_no_ff v h

theorem byte_not_mem_utf8 (s : String) (c : Char) (hc : c.toNat < 0x80) (hs : c ∉ s.toList) :
    UInt8.ofNat c.toNat ∉ utf8 s := by
  intro h
  have hb : (UInt8.ofNat c.toNat).toNat = c.toNat := u8_ofNat_toNat (by omega)
  obtain ⟨d, hd, hdc⟩ := utf8_ascii_mem s _ h (by omega)
  rw [hb] at hdc
  exact hs (char_eq_of_toNat hdc ▸ hd)

/-- `'p:v'` determines `p` and `v` when `p` contains no colon. -/
theorem objString_inj (p v p' v' : String) (hp : ':' ∉ p.toList) (hp' : ':' ∉ p'.toList)
    (h : objString p v = objString p' v') : p = p' ∧ v = v' := by
  simp only [objString, List.append_assoc, List.cons_append, List.nil_append] at h
  have c1 : (0x3A : UInt8) ∉ utf8 p := byte_not_mem_utf8 p ':' (by decide) hp
  have c2 : (0x3A : UInt8) ∉ utf8 p' := byte_not_mem_utf8 p' ':' (by decide) hp'
  have s := split_first c1 c2 h
  exact ⟨utf8_injective _ _ s.1, utf8_injective _ _ s.2⟩

end Edxml
