/-
C14 — The parser delivers each event exactly once, in order, to the right handlers.

`Spec` is the behaviour the documentation promises, short enough to read at a glance: no pattern
map cache, no tree, no counters — just the current ontology, the callback log and the list of
delivered events. The parser machine is shown to refine it.
-/
import EdxmlModel
import EdxmlProps.Lemmas.Parser
import EdxmlProps.C06
namespace EdxmlProps.C14
open Edxml

structure Spec where
  ont : Option (List String × List String) := none
  log : List Callback := []
  /-- (index, event type) of the delivered events, in delivery order -/
  delivered : List (Nat × String) := []
  /-- how many of them were delivered in earlier documents parsed by the same parser -/
  base : Nat := 0

/-- Callbacks for one event: the expected handlers in order, or the overridden `_parsed_event`
when there is none. A function of the registry, the event's type and source — nothing else. -/
def specDispatch (reg : Registry) (idx : Nat) (type source : String) : List Callback :=
  match expectedHandlers reg type source with
  | [] => if reg.overridden then [.fallback idx] else []
  | hs => hs.map fun h => .handler h idx

def specStep (reg : Registry) (t : Spec) : Item → Spec × Option PErr
  | .ont .ok types sources =>
    let cur := t.ont.getD ([], [])
    let ts := canonS (cur.1 ++ types)
    let ss := canonS (cur.2 ++ sources)
    ({ t with ont := some (ts, ss), log := t.log ++ [Callback.ontology ts ss] }, none)
  | .ont _ _ _ => (t, some .ontologyValidation)
  | .event idx type source gateOk =>
    match t.ont with
    | none => (t, some .validation)
    | some (ts, ss) =>
      if !ss.contains source then (t, some .eventValidation) else
      if !ts.contains type then (t, some .eventValidation) else
      if reg.validate && !gateOk then (t, some .eventValidation) else
      ({ t with log := t.log ++ specDispatch reg idx type source,
                delivered := t.delivered ++ [(idx, type)] }, none)
  | .foreign idx => ({ t with log := t.log ++ [Callback.foreign idx] }, none)

def specRun (reg : Registry) (t : Spec) : List Item → Spec × Option PErr
  | [] => (t, none)
  | it :: rest =>
    match specStep reg t it with
    | (t', none) => specRun reg t' rest
    | (t', some e) => (t', some e)

def countType (ty : String) (d : List (Nat × String)) : Nat := (d.filter (·.2 == ty)).length

def isOntologyCallback : Callback → Bool
  | .ontology _ _ => true
  | _ => false

/-- Simulation relation between the parser machine and the specification. -/
structure Sim (reg : Registry) (s : PState) (t : Spec) : Prop where
  ont : s.ont = t.ont
  log : s.log = t.log
  nEvents : s.nEvents + t.base = t.delivered.length
  counts : ∀ ty, lookupD ty 0 s.typeCount = countType ty t.delivered
  patMap : ∀ ts ss, s.ont = some (ts, ss) → s.patMap = buildPatMap reg ss

theorem sim_init (reg : Registry) : Sim reg {} {} :=
  ⟨rfl, rfl, rfl, fun _ => rfl, fun _ _ h => (by cases h)⟩

theorem dispatch_eq (reg : Registry) (ss : List String) (idx : Nat) (type source : String)
    (hs : ss.contains source = true) :
    dispatch reg (buildPatMap reg ss) idx type source = specDispatch reg idx type source := by
  unfold dispatch specDispatch
  rw [handlersFor_buildPatMap reg ss type source (by simpa using hs)]
  rfl

/-- Error steps only add ontology callbacks (the "better message" fallback), nothing else. -/
structure ErrStep (s s' : PState) : Prop where
  log : ∃ extra, s'.log = s.log ++ extra ∧ ∀ c ∈ extra, isOntologyCallback c = true
  nEvents : s'.nEvents = s.nEvents
  counts : ∀ ty, lookupD ty 0 s'.typeCount = lookupD ty 0 s.typeCount

theorem processOnt_err (reg : Registry) (s : PState) (types sources : List String) :
    ErrStep s (processOnt reg s types sources) :=
  ⟨⟨_, rfl, fun c hc => by simp at hc; subst hc; rfl⟩, rfl,
   fun ty => lookupD_foldl_setDefault ty _ _⟩

theorem ErrStep.trans {a b c : PState} (h1 : ErrStep a b) (h2 : ErrStep b c) : ErrStep a c := by
  obtain ⟨x, hx, hxo⟩ := h1.log
  obtain ⟨y, hy, hyo⟩ := h2.log
  refine ⟨⟨x ++ y, by rw [hy, hx, List.append_assoc], ?_⟩, h2.nEvents.trans h1.nEvents,
    fun ty => (h2.counts ty).trans (h1.counts ty)⟩
  intro c hc
  rcases List.mem_append.mp hc with h | h
  · exact hxo c h
  · exact hyo c h

theorem ErrStep.refl (a : PState) : ErrStep a a := ⟨⟨[], by simp, fun c hc => by cases hc⟩, rfl, fun _ => rfl⟩

theorem reprocess_err (reg : Registry) : ∀ (n : Nat) (s : PState), ErrStep s (reprocess reg n s)
  | 0, s => ErrStep.refl s
  | n + 1, s => (processOnt_err reg s [] []).trans (reprocess_err reg n _)

/-- One step of the machine against one step of the specification. -/
theorem step_sim (reg : Registry) (s s' : PState) (t t' : Spec) (it : Item) (e e' : Option PErr)
    (hR : Sim reg s t) (hs : pstep reg s it = (s', e)) (ht : specStep reg t it = (t', e')) :
    e = e' ∧ (e = none → Sim reg s' t') ∧
    (e ≠ none → t' = t ∧ ErrStep s s') := by
  cases it with
  | foreign idx =>
    simp only [pstep, Prod.mk.injEq] at hs
    simp only [specStep, Prod.mk.injEq] at ht
    obtain ⟨rfl, rfl⟩ := hs
    obtain ⟨rfl, rfl⟩ := ht
    refine ⟨rfl, fun _ => ?_, fun h => absurd rfl h⟩
    exact ⟨hR.ont, by show s.log ++ _ = t.log ++ _; rw [hR.log], hR.nEvents, hR.counts, hR.patMap⟩
  | ont v types sources =>
    cases v with
    | ok =>
      simp only [specStep, Prod.mk.injEq] at ht
      obtain ⟨rfl, rfl⟩ := ht
      simp only [pstep] at hs
      have key : ∀ s0 : PState, s0.ont = s.ont → s0.log = s.log → s0.nEvents = s.nEvents →
          s0.typeCount = s.typeCount →
          Sim reg (processOnt reg s0 types sources)
            { t with ont := some (canonS ((t.ont.getD ([], [])).1 ++ types), canonS ((t.ont.getD ([], [])).2 ++ sources)),
                     log := t.log ++ [Callback.ontology (canonS ((t.ont.getD ([], [])).1 ++ types))
                       (canonS ((t.ont.getD ([], [])).2 ++ sources))] } := by
        intro s0 h1 h2 h3 h4
        refine ⟨?_, ?_, ?_, ?_, ?_⟩
        · simp only [processOnt, h1, hR.ont]
        · simp only [processOnt, h1, h2, hR.ont, hR.log]
        · simp only [processOnt, h3]; exact hR.nEvents
        · intro ty; simp only [processOnt]; rw [lookupD_foldl_setDefault, h4]; exact hR.counts ty
        · intro ts ss hts
          simp only [processOnt, Option.some.injEq, Prod.mk.injEq] at hts
          simp only [processOnt]; rw [hts.2]
      split at hs
      · simp only [Prod.mk.injEq] at hs
        obtain ⟨rfl, rfl⟩ := hs
        refine ⟨rfl, fun _ => ?_, fun h => absurd rfl h⟩
        have k := key { s with children := s.children ++ [Kind.ont] } rfl rfl rfl rfl
        exact ⟨k.ont, k.log, k.nEvents, k.counts, k.patMap⟩
      · simp only [Prod.mk.injEq] at hs
        obtain ⟨rfl, rfl⟩ := hs
        refine ⟨rfl, fun _ => ?_, fun h => absurd rfl h⟩
        have k := key { s with children := s.children ++ [Kind.ont] } rfl rfl rfl rfl
        exact ⟨k.ont, k.log, k.nEvents, k.counts, k.patMap⟩
    | semFail =>
      simp only [pstep, Prod.mk.injEq] at hs
      simp only [specStep, Prod.mk.injEq] at ht
      obtain ⟨rfl, rfl⟩ := hs
      obtain ⟨rfl, rfl⟩ := ht
      exact ⟨rfl, fun h => (by cases h), fun _ => ⟨rfl, ⟨⟨[], by simp, fun c hc => by cases hc⟩, rfl, fun _ => rfl⟩⟩⟩
    | schemaSemFail =>
      simp only [pstep, Prod.mk.injEq] at hs
      simp only [specStep, Prod.mk.injEq] at ht
      obtain ⟨rfl, rfl⟩ := hs
      obtain ⟨rfl, rfl⟩ := ht
      exact ⟨rfl, fun h => (by cases h), fun _ => ⟨rfl, ⟨⟨[], by simp, fun c hc => by cases hc⟩, rfl, fun _ => rfl⟩⟩⟩
    | schemaSemOk =>
      simp only [pstep, Prod.mk.injEq] at hs
      simp only [specStep, Prod.mk.injEq] at ht
      obtain ⟨rfl, rfl⟩ := hs
      obtain ⟨rfl, rfl⟩ := ht
      exact ⟨rfl, fun h => (by cases h), fun _ => ⟨rfl, ⟨⟨[], by simp, fun c hc => by cases hc⟩, rfl, fun _ => rfl⟩⟩⟩
  | event idx type source gateOk =>
    simp only [pstep] at hs
    simp only [specStep] at ht
    have hont := hR.ont
    cases ho : t.ont with
    | none =>
      rw [ho] at ht hont
      simp only [hont, Prod.mk.injEq] at hs
      simp only [Prod.mk.injEq] at ht
      obtain ⟨rfl, rfl⟩ := hs
      obtain ⟨rfl, rfl⟩ := ht
      exact ⟨rfl, fun h => (by cases h), fun _ => ⟨rfl, ⟨⟨[], by simp, fun c hc => by cases hc⟩, rfl, fun _ => rfl⟩⟩⟩
    | some o =>
      obtain ⟨ts, ss⟩ := o
      rw [ho] at ht hont
      simp only [hont] at hs
      simp only at ht
      by_cases h1 : (!ss.contains source) = true
      · rw [if_pos h1] at hs ht
        simp only [Prod.mk.injEq] at hs ht
        obtain ⟨rfl, rfl⟩ := hs
        obtain ⟨rfl, rfl⟩ := ht
        exact ⟨rfl, fun h => (by cases h), fun _ => ⟨rfl, ⟨⟨[], by simp, fun c hc => by cases hc⟩, rfl, fun _ => rfl⟩⟩⟩
      · rw [if_neg h1] at hs ht
        by_cases h2 : (!ts.contains type) = true
        · rw [if_pos h2] at hs ht
          simp only [Prod.mk.injEq] at hs ht
          obtain ⟨rfl, rfl⟩ := hs
          obtain ⟨rfl, rfl⟩ := ht
          exact ⟨rfl, fun h => (by cases h), fun _ => ⟨rfl, ⟨⟨[], by simp, fun c hc => by cases hc⟩, rfl, fun _ => rfl⟩⟩⟩
        · rw [if_neg h2] at hs ht
          by_cases h3 : (reg.validate && !gateOk) = true
          · rw [if_pos h3] at hs ht
            simp only [Prod.mk.injEq] at hs ht
            obtain ⟨rfl, rfl⟩ := hs
            obtain ⟨rfl, rfl⟩ := ht
            exact ⟨rfl, fun h => (by cases h), fun _ => ⟨rfl, ⟨⟨[], by simp, fun c hc => by cases hc⟩, rfl, fun _ => rfl⟩⟩⟩
          · rw [if_neg h3] at hs ht
            simp only [Prod.mk.injEq] at ht
            obtain ⟨rfl, rfl⟩ := ht
            have hsrc : ss.contains source = true := by simpa using h1
            have hpm : s.patMap = buildPatMap reg ss := hR.patMap ts ss hont
            have sim' : ∀ ch : List Kind,
                Sim reg { s with children := ch,
                                 ont := some (ts, ss),
                                 log := s.log ++ dispatch reg s.patMap idx type source,
                                 sizes := s.sizes ++ [(idx, (s.children ++ [Kind.event]).length)],
                                 nEvents := s.nEvents + 1,
                                 typeCount := increment type s.typeCount }
                  { t with ont := some (ts, ss),
                           log := t.log ++ specDispatch reg idx type source,
                           delivered := t.delivered ++ [(idx, type)] } := by
              intro ch
              refine ⟨rfl, ?_, ?_, ?_, ?_⟩
              · simp only; rw [hpm, dispatch_eq reg ss idx type source hsrc, hR.log]
              · simp only [List.length_append, List.length_singleton]
                have := hR.nEvents
                omega
              · intro ty
                simp only
                rw [lookupD_increment, hR.counts ty]
                unfold countType
                simp only [List.filter_append, List.length_append, List.filter_cons, List.filter_nil]
                split <;> simp
              · intro ts' ss' h'
                simp only [Option.some.injEq, Prod.mk.injEq] at h'
                simp only; rw [← h'.2]; exact hpm
            split at hs
            · simp only [Prod.mk.injEq] at hs
              obtain ⟨rfl, rfl⟩ := hs
              exact ⟨rfl, fun _ => sim' _, fun h => absurd rfl h⟩
            · simp only [Prod.mk.injEq] at hs
              obtain ⟨rfl, rfl⟩ := hs
              exact ⟨rfl, fun _ => sim' _, fun h => absurd rfl h⟩

/-- **The parser refines the specification** (`dispatch_exact`): for every document and
registration set, parsing ends with the same outcome as the specification, the callback log is
the specification's log — event by event the type handlers followed by the handlers of every
matching source pattern in registration order, or the overridden `_parsed_event` — followed, only
when parsing fails on an ontology element, by repeated ontology callbacks; and the counters equal
the number of delivered events (`counters_eq_delivered`). -/
theorem dispatch_exact (reg : Registry) : ∀ (items : List Item) (s s' : PState) (t t' : Spec)
    (e e' : Option PErr), Sim reg s t → prun reg s items = (s', e) → specRun reg t items = (t', e') →
    e = e' ∧ s'.nEvents + t'.base = t'.delivered.length ∧
    (∀ ty, lookupD ty 0 s'.typeCount = countType ty t'.delivered) ∧
    ∃ extra, s'.log = t'.log ++ extra ∧ (e = none → extra = []) ∧
      ∀ c ∈ extra, isOntologyCallback c = true
  | [], s, s', t, t', e, e', hR, hs, ht => by
    simp only [prun, Prod.mk.injEq] at hs
    simp only [specRun, Prod.mk.injEq] at ht
    obtain ⟨rfl, rfl⟩ := hs
    obtain ⟨rfl, rfl⟩ := ht
    exact ⟨rfl, hR.nEvents, hR.counts, [], by rw [hR.log]; simp, fun _ => rfl, fun c hc => by cases hc⟩
  | it :: items, s, s', t, t', e, e', hR, hs, ht => by
    simp only [prun] at hs
    simp only [specRun] at ht
    cases h1 : pstep reg s it with
    | mk s1 e1 =>
      cases h2 : specStep reg t it with
      | mk t1 e2 =>
        rw [h1] at hs
        rw [h2] at ht
        have st := step_sim reg s s1 t t1 it e1 e2 hR h1 h2
        cases e1 with
        | none =>
          have : e2 = none := st.1.symm
          subst this
          simp only at hs ht
          exact dispatch_exact reg items s1 s' t1 t' e e' (st.2.1 rfl) hs ht
        | some err =>
          have : e2 = some err := st.1.symm
          subst this
          simp only [Prod.mk.injEq] at hs ht
          obtain ⟨rfl, rfl⟩ := hs
          obtain ⟨rfl, rfl⟩ := ht
          obtain ⟨rfl, es⟩ := st.2.2 (by simp)
          obtain ⟨extra, hx, hxo⟩ := es.log
          refine ⟨rfl, by rw [es.nEvents]; exact hR.nEvents, fun ty => by rw [es.counts ty, hR.counts ty],
            extra, by rw [hx, hR.log], fun h => (by cases h), hxo⟩

theorem specStep_base (reg : Registry) (t : Spec) (it : Item) : (specStep reg t it).1.base = t.base := by
  cases it with
  | foreign idx => rfl
  | ont v types sources => cases v <;> rfl
  | event idx type source g =>
    simp only [specStep]
    cases t.ont with
    | none => rfl
    | some o =>
      simp only
      split
      · rfl
      · split
        · rfl
        · split <;> rfl

theorem specRun_base (reg : Registry) : ∀ (items : List Item) (t : Spec), (specRun reg t items).1.base = t.base
  | [], _ => rfl
  | it :: rest, t => by
    simp only [specRun]
    have h := specStep_base reg t it
    cases hst : specStep reg t it with
    | mk t1 e1 =>
      rw [hst] at h
      cases e1 with
      | none => simp only; rw [specRun_base reg rest t1]; exact h
      | some err => exact h

/-- Counters equal the number of delivered events, in total and per event type. -/
theorem counters_eq_delivered (reg : Registry) (items : List Item) :
    (prun reg {} items).1.nEvents = (specRun reg {} items).1.delivered.length ∧
    ∀ ty, lookupD ty 0 (prun reg {} items).1.typeCount = countType ty (specRun reg {} items).1.delivered := by
  have := dispatch_exact reg items {} _ {} _ _ _ (sim_init reg) rfl rfl
  have hb : (specRun reg {} items).1.base = 0 := specRun_base reg items {}
  exact ⟨by have := this.2.1; omega, this.2.2.1⟩

/-- The callbacks for an event do not depend on the events parsed before it: whatever the state of
the specification, an accepted event appends exactly `specDispatch reg idx type source`. -/
theorem dispatch_history_free (reg : Registry) (t₁ t₂ t₁' t₂' : Spec) (idx : Nat) (type source : String) (g : Bool)
    (h₁ : specStep reg t₁ (.event idx type source g) = (t₁', none))
    (h₂ : specStep reg t₂ (.event idx type source g) = (t₂', none)) :
    ∃ cb, t₁'.log = t₁.log ++ cb ∧ t₂'.log = t₂.log ++ cb ∧ cb = specDispatch reg idx type source := by
  have one : ∀ (t t' : Spec), specStep reg t (.event idx type source g) = (t', none) →
      t'.log = t.log ++ specDispatch reg idx type source := by
    intro t t' h
    simp only [specStep] at h
    cases ho : t.ont with
    | none => rw [ho] at h; simp at h
    | some o =>
      rw [ho] at h
      simp only at h
      split at h
      · simp at h
      · split at h
        · simp at h
        · split at h
          · simp at h
          · simp only [Prod.mk.injEq, and_true] at h; rw [← h]
  exact ⟨_, one t₁ t₁' h₁, one t₂ t₂' h₂, rfl⟩

def eventsOf : List Item → List (Nat × String)
  | [] => []
  | .event idx type _ _ :: r => (idx, type) :: eventsOf r
  | _ :: r => eventsOf r

theorem eventsOf_append (a b : List Item) : eventsOf (a ++ b) = eventsOf a ++ eventsOf b := by
  induction a with
  | nil => rfl
  | cons x xs ih => cases x <;> simp [eventsOf, ih]

/-- **Exactly once, in document order**: the delivered events are the events of a prefix of the
document (all of it when parsing succeeds), each once, in order. -/
theorem events_once_in_order (reg : Registry) : ∀ (items : List Item) (t t' : Spec) (e : Option PErr),
    specRun reg t items = (t', e) →
    ∃ pre post, items = pre ++ post ∧ t'.delivered = t.delivered ++ eventsOf pre ∧ (e = none → post = [])
  | [], t, t', e, h => by
    simp only [specRun, Prod.mk.injEq] at h
    obtain ⟨rfl, rfl⟩ := h
    exact ⟨[], [], rfl, by simp [eventsOf], fun _ => rfl⟩
  | it :: items, t, t', e, h => by
    simp only [specRun] at h
    cases hst : specStep reg t it with
    | mk t1 e1 =>
      rw [hst] at h
      cases e1 with
      | some err =>
        simp only [Prod.mk.injEq] at h
        obtain ⟨rfl, rfl⟩ := h
        refine ⟨[], it :: items, rfl, ?_, fun he => by cases he⟩
        -- a failing step delivers nothing
        have : t1.delivered = t.delivered := by
          cases it with
          | foreign idx => simp [specStep] at hst
          | ont v ty so =>
            cases v <;> simp only [specStep, Prod.mk.injEq] at hst
            · exact absurd hst.2 (by simp)
            all_goals (rw [← hst.1])
          | event idx type source g =>
            simp only [specStep] at hst
            cases ho : t.ont with
            | none => rw [ho] at hst; simp only [Prod.mk.injEq] at hst; rw [← hst.1]
            | some o =>
              rw [ho] at hst; simp only at hst
              split at hst
              · simp only [Prod.mk.injEq] at hst; rw [← hst.1]
              · split at hst
                · simp only [Prod.mk.injEq] at hst; rw [← hst.1]
                · split at hst
                  · simp only [Prod.mk.injEq] at hst; rw [← hst.1]
                  · simp at hst
        simp [eventsOf, this]
      | none =>
        simp only at h
        obtain ⟨pre, post, hpp, hd, hn⟩ := events_once_in_order reg items t1 t' e h
        refine ⟨it :: pre, post, by rw [hpp]; rfl, ?_, hn⟩
        have : t1.delivered = t.delivered ++ eventsOf [it] := by
          cases it with
          | foreign idx => simp only [specStep, Prod.mk.injEq] at hst; rw [← hst.1]; simp [eventsOf]
          | ont v ty so =>
            cases v <;> simp only [specStep, Prod.mk.injEq] at hst
            · rw [← hst.1]; simp [eventsOf]
            all_goals (exact absurd hst.2 (by simp))
          | event idx type source g =>
            simp only [specStep] at hst
            cases ho : t.ont with
            | none => rw [ho] at hst; simp at hst
            | some o =>
              rw [ho] at hst; simp only at hst
              split at hst
              · simp at hst
              · split at hst
                · simp at hst
                · split at hst
                  · simp at hst
                  · simp only [Prod.mk.injEq, and_true] at hst; rw [← hst]; simp [eventsOf]
        rw [hd, this]
        have : eventsOf (it :: pre) = eventsOf [it] ++ eventsOf pre := by
          rw [← eventsOf_append]; rfl
        rw [this, List.append_assoc]

/-- The latest ontology callback in the log carries the current ontology. -/
def SpecInv (t : Spec) : Prop := ∀ ts ss, t.ont = some (ts, ss) → Callback.ontology ts ss ∈ t.log

theorem specStep_inv (reg : Registry) (t t' : Spec) (it : Item) (e : Option PErr)
    (hI : SpecInv t) (h : specStep reg t it = (t', e)) : SpecInv t' := by
  cases it with
  | foreign idx =>
    simp only [specStep, Prod.mk.injEq] at h
    obtain ⟨rfl, _⟩ := h
    intro ts ss ho
    exact List.mem_append_left _ (hI ts ss ho)
  | ont v ty so =>
    cases v <;> simp only [specStep, Prod.mk.injEq] at h
    · obtain ⟨rfl, _⟩ := h
      intro ts ss ho
      simp only [Option.some.injEq, Prod.mk.injEq] at ho
      simp only [ho.1, ho.2]
      simp
    all_goals (obtain ⟨rfl, _⟩ := h; exact hI)
  | event idx type source g =>
    simp only [specStep] at h
    cases ho : t.ont with
    | none => rw [ho] at h; simp only [Prod.mk.injEq] at h; obtain ⟨rfl, _⟩ := h; exact hI
    | some o =>
      rw [ho] at h; simp only at h
      split at h
      · simp only [Prod.mk.injEq] at h; obtain ⟨rfl, _⟩ := h; exact hI
      · split at h
        · simp only [Prod.mk.injEq] at h; obtain ⟨rfl, _⟩ := h; exact hI
        · split at h
          · simp only [Prod.mk.injEq] at h; obtain ⟨rfl, _⟩ := h; exact hI
          · simp only [Prod.mk.injEq] at h; obtain ⟨rfl, _⟩ := h
            intro ts ss ho'
            exact List.mem_append_left _ (hI ts ss (ho.trans ho'))

/-- **Ontology before use**: when an event is delivered, an ontology callback that defines its
event type and its source is already in the log. -/
theorem ontology_before_use (reg : Registry) (t t' : Spec) (idx : Nat) (type source : String) (g : Bool)
    (hI : SpecInv t) (h : specStep reg t (.event idx type source g) = (t', none)) :
    ∃ ts ss, Callback.ontology ts ss ∈ t.log ∧ ts.contains type = true ∧ ss.contains source = true := by
  simp only [specStep] at h
  cases ho : t.ont with
  | none => rw [ho] at h; simp at h
  | some o =>
    obtain ⟨ts, ss⟩ := o
    rw [ho] at h; simp only at h
    split at h
    · simp at h
    · rename_i h1
      split at h
      · simp at h
      · rename_i h2
        exact ⟨ts, ss, hI ts ss ho, by simpa using h2, by simpa using h1⟩

theorem specRun_inv (reg : Registry) : ∀ (items : List Item) (t t' : Spec) (e : Option PErr),
    SpecInv t → specRun reg t items = (t', e) → SpecInv t'
  | [], t, t', e, hI, h => by
    simp only [specRun, Prod.mk.injEq] at h; obtain ⟨rfl, _⟩ := h; exact hI
  | it :: items, t, t', e, hI, h => by
    simp only [specRun] at h
    cases hst : specStep reg t it with
    | mk t1 e1 =>
      rw [hst] at h
      have hI1 := specStep_inv reg t t1 it e1 hI hst
      cases e1 with
      | none => exact specRun_inv reg items t1 t' e hI1 h
      | some err => simp only [Prod.mk.injEq] at h; obtain ⟨rfl, _⟩ := h; exact hI1

/-! ### Non-vacuity -/

example : (specRun C06.exReg {} C06.exDoc).1.log = (prun C06.exReg {} C06.exDoc).1.log := by decide +kernel
example : (specRun C06.exReg {} C06.exDoc).1.delivered = [(1, "ta"), (3, "ta")] := by decide +kernel

/-! ### feeding on after a refused event -/

/-- a step that raises leaves everything but the tree as it was -/
theorem pstep_error_frame (reg : Registry) (s : PState) (it : Item) (e : PErr) (h : (pstep reg s it).2 = some e) :
    (pstep reg s it).1.log = s.log ∧ (pstep reg s it).1.ont = s.ont ∧ (pstep reg s it).1.nEvents = s.nEvents ∧
    (pstep reg s it).1.typeCount = s.typeCount ∧ (pstep reg s it).1.patMap = s.patMap := by
  cases it with
  | foreign idx => simp [pstep] at h
  | ont v types sources =>
    cases v with
    | ok => simp only [pstep] at h; split at h <;> cases h
    | semFail => exact ⟨rfl, rfl, rfl, rfl, rfl⟩
    | schemaSemFail => exact ⟨rfl, rfl, rfl, rfl, rfl⟩
    | schemaSemOk => exact ⟨rfl, rfl, rfl, rfl, rfl⟩
  | event idx type source gateOk =>
    simp only [pstep] at h ⊢
    cases hont : s.ont with
    | none => simp [hont]
    | some o =>
      obtain ⟨ts, ss⟩ := o
      simp only [hont] at h ⊢
      split
      · exact ⟨rfl, hont.symm ▸ rfl, rfl, rfl, rfl⟩
      · split
        · exact ⟨rfl, hont.symm ▸ rfl, rfl, rfl, rfl⟩
        · split
          · exact ⟨rfl, hont.symm ▸ rfl, rfl, rfl, rfl⟩
          · rename_i h1 h2 h3
            simp only [h1, h2, h3, if_false, Bool.false_eq_true] at h
            split at h <;> cases h

/-- the specification of a parser that is fed on after refused events: they are skipped -/
def specRunResilient (reg : Registry) (t : Spec) : List Item → Spec × List PErr
  | [] => (t, [])
  | it :: rest =>
    match specStep reg t it with
    | (t', none) => specRunResilient reg t' rest
    | (t', some .eventValidation) =>
      let r := specRunResilient reg t' rest
      (r.1, .eventValidation :: r.2)
    | (t', some e) => (t', [e])

/-- **C14 for a parser that is fed on after refused events**: the refused events raise and reach no
handler; every other event is dispatched by the same rule as if they had not been there; the counters
count the delivered events -/
theorem resilient_dispatch_exact (reg : Registry) : ∀ (items : List Item) (s : PState) (t : Spec), Sim reg s t →
    (prunResilient reg s items).2 = (specRunResilient reg t items).2 ∧
    (((prunResilient reg s items).2.all (· == .eventValidation)) = true →
      Sim reg (prunResilient reg s items).1 (specRunResilient reg t items).1)
  | [], s, t, h => ⟨rfl, fun _ => h⟩
  | it :: rest, s, t, hR => by
    simp only [prunResilient, specRunResilient]
    cases hp : pstep reg s it with
    | mk s1 e1 =>
      cases hq : specStep reg t it with
      | mk t1 e2 =>
        have st := step_sim reg s s1 t t1 it e1 e2 hR hp hq
        cases e1 with
        | none =>
          have : e2 = none := st.1.symm
          subst this
          exact resilient_dispatch_exact reg rest s1 t1 (st.2.1 rfl)
        | some err =>
          have he : e2 = some err := st.1.symm
          subst he
          obtain ⟨rfl, _⟩ := st.2.2 (by simp)
          have fr := pstep_error_frame reg s it err (by rw [hp])
          rw [hp] at fr
          have hS : Sim reg s1 t1 :=
            ⟨fr.2.1 ▸ hR.ont, fr.1 ▸ hR.log, fr.2.2.1 ▸ hR.nEvents, fun ty => fr.2.2.2.1 ▸ hR.counts ty,
              fun ts ss h => by rw [fr.2.2.2.2]; exact hR.patMap ts ss (fr.2.1 ▸ h)⟩
          cases err with
          | eventValidation =>
            have ih := resilient_dispatch_exact reg rest s1 t1 hS
            simp only
            refine ⟨by rw [ih.1], fun hall => ih.2 ?_⟩
            simpa using hall
          | validation => exact ⟨rfl, fun hall => by simp at hall⟩
          | ontologyValidation => exact ⟨rfl, fun hall => by simp at hall⟩

/-! ### one parser, several documents

`parse()` may be called again on the same parser: `_init()` forgets the tree, the event counter and
that an ontology element was seen; the ontology, the per-type counters, the registered handlers and
the source pattern map stay. -/

/-- the specification between two documents: nothing is forgotten but the count of events of the
document -/
def Spec.nextDoc (t : Spec) : Spec := { t with base := t.delivered.length }

theorem nextDoc_sim (reg : Registry) (s : PState) (t : Spec) (h : Sim reg s t) : Sim reg s.nextDoc t.nextDoc :=
  ⟨h.ont, h.log, by simp [PState.nextDoc, Spec.nextDoc], h.counts, h.patMap⟩

/-- C14 for a reused parser: whatever was parsed before, the next document is dispatched by the same
rule — event by event the type handlers, then the handlers of every pattern matching the source,
with the sources of *all* documents so far — the event counter counts the events of this document,
the per-type counters those of all documents -/
theorem reuse_dispatch_exact (reg : Registry) (doc1 doc2 : List Item) (s1 s2 : PState) (e1 e2 : Option PErr)
    (h1 : prun reg {} doc1 = (s1, e1)) (hok : e1 = none) (h2 : prun reg s1.nextDoc doc2 = (s2, e2)) :
    let t1 := (specRun reg {} doc1).1
    let r2 := specRun reg t1.nextDoc doc2
    e2 = r2.2 ∧ s2.nEvents + t1.delivered.length = r2.1.delivered.length ∧
    (∀ ty, lookupD ty 0 s2.typeCount = countType ty r2.1.delivered) ∧
    ∃ extra, s2.log = r2.1.log ++ extra ∧ (e2 = none → extra = []) ∧ ∀ c ∈ extra, isOntologyCallback c = true := by
  intro t1 r2
  -- the first document ends in a state that simulates the specification
  have sim1 : Sim reg s1 t1 := by
    have key : ∀ (items : List Item) (s s' : PState) (t : Spec) (e : Option PErr), Sim reg s t →
        prun reg s items = (s', e) → e = none → Sim reg s' (specRun reg t items).1 := by
      intro items
      induction items with
      | nil =>
        intro s s' t e hR hs _
        simp only [prun, Prod.mk.injEq] at hs
        obtain ⟨rfl, rfl⟩ := hs
        exact hR
      | cons it rest ih =>
        intro s s' t e hR hs he
        simp only [prun] at hs
        simp only [specRun]
        cases hp : pstep reg s it with
        | mk sa ea =>
          cases hq : specStep reg t it with
          | mk ta eb =>
            rw [hp] at hs
            have st := step_sim reg s sa t ta it ea eb hR hp hq
            cases ea with
            | none =>
              have : eb = none := st.1.symm
              subst this
              simp only at hs ⊢
              exact ih sa s' ta e (st.2.1 rfl) hs he
            | some err =>
              simp only [Prod.mk.injEq] at hs
              rw [← hs.2] at he
              cases he
    exact key doc1 {} s1 {} e1 (sim_init reg) h1 hok
  have hb : r2.1.base = t1.delivered.length := by
    show (specRun reg t1.nextDoc doc2).1.base = _
    rw [specRun_base]; rfl
  have := dispatch_exact reg doc2 s1.nextDoc s2 t1.nextDoc r2.1 e2 r2.2 (nextDoc_sim reg s1 t1 sim1) h2 rfl
  refine ⟨this.1, ?_, this.2.2.1, this.2.2.2⟩
  have h := this.2.1
  rw [hb] at h
  exact h

end EdxmlProps.C14
