/-
C01 — Sticky hash is exactly the specified function of logical event identity.

`Edxml.hashInput` *is* the specified byte layout (source ⏎ type ⏎ sorted set of "p:v" joined by
0xFFFFFFFF, hashed properties only); the correspondence check ties `compute_sticky_hash` to it
digest by digest. The theorems below state what the property derives from that layout, for all
events, all sets of hashed properties and all orderings.
-/
import EdxmlModel
import EdxmlProps.Lemmas.ListSet
import EdxmlProps.Lemmas.Bytes
namespace EdxmlProps.C01
open Edxml

/-- The hash input depends only on source, type and the *set* of (hashed property, object) pairs. -/
theorem hashInput_congr (hashed : List String) (e₁ e₂ : Event)
    (hs : e₁.source = e₂.source) (ht : e₁.type = e₂.type)
    (hp : ∀ p v, hashed.contains p = true → ((p, v) ∈ e₁.pairs ↔ (p, v) ∈ e₂.pairs)) :
    hashInput hashed e₁ = hashInput hashed e₂ := by
  unfold hashInput
  rw [hs, ht]
  congr 2
  apply (canon_eq_iff bytesLt_strictTotal _ _).mpr
  intro b
  simp only [objStrings, List.mem_map, List.mem_filter]
  constructor
  · rintro ⟨⟨p, v⟩, ⟨hm, hh⟩, rfl⟩
    exact ⟨(p, v), ⟨(hp p v hh).mp hm, hh⟩, rfl⟩
  · rintro ⟨⟨p, v⟩, ⟨hm, hh⟩, rfl⟩
    exact ⟨(p, v), ⟨(hp p v hh).mpr hm, hh⟩, rfl⟩

/-- Unchanged by any reordering of properties and objects, and by repeating objects. -/
theorem hashInput_perm (hashed : List String) (e₁ e₂ : Event)
    (hs : e₁.source = e₂.source) (ht : e₁.type = e₂.type)
    (hp : ∀ pv, pv ∈ e₁.pairs ↔ pv ∈ e₂.pairs) :
    hashInput hashed e₁ = hashInput hashed e₂ :=
  hashInput_congr hashed e₁ e₂ hs ht fun p v _ => hp (p, v)

/-- Properties that are not hashed do not matter. -/
theorem hashInput_ignores_unhashed (hashed : List String) (e : Event)
    (extra : List (String × List String)) (hx : ∀ pv ∈ extra, hashed.contains pv.1 = false) :
    hashInput hashed { e with props := e.props ++ extra } = hashInput hashed e := by
  refine hashInput_congr hashed { e with props := e.props ++ extra } e rfl rfl ?_
  intro p v hh
  simp only [Event.pairs, List.flatMap_append, List.mem_append, List.mem_flatMap, List.mem_map]
  constructor
  · rintro (h | ⟨pv, hpv, w, _, hw⟩)
    · exact h
    · have := hx pv hpv
      cases hw
      rw [hh] at this; cases this
  · intro h; exact Or.inl h

/-- Attachments, parents and foreign attributes do not enter the hash. -/
theorem hashInput_ignores_rest (hashed : List String) (e : Event)
    (atts : List (String × List (String × String))) (parents : List String)
    (foreign : List (String × String)) :
    hashInput hashed { e with atts := atts, parents := parents, foreign := foreign }
      = hashInput hashed e := rfl

/-- The sorted object strings are strictly increasing (hence duplicate-free). -/
theorem objStrings_sorted_nodup (hashed : List String) (e : Event) :
    SSorted bytesLt (canon bytesLt (objStrings hashed e)) ∧
    (canon bytesLt (objStrings hashed e)).Nodup :=
  ⟨sorted_canon bytesLt_strictTotal _,
   nodup_of_sorted bytesLt_strictTotal _ (sorted_canon bytesLt_strictTotal _)⟩

/-- `str.encode()` loses nothing. -/
theorem utf8_injective (s t : String) (h : utf8 s = utf8 t) : s = t := Edxml.utf8_injective s t h

/-- What the ontology validator guarantees about names: no newline in source URI or type name,
no colon in the names of hashed properties. -/
structure WF (hashed : List String) (e : Event) : Prop where
  source : '\n' ∉ e.source.toList
  type : '\n' ∉ e.type.toList
  names : ∀ p ∈ hashed, ':' ∉ p.toList

/-- The layout is unambiguous: equal hash inputs mean equal source, type and hashed object
sets. Contrapositive: the input changes whenever one of them changes. -/
theorem hashInput_injective (hashed : List String) (e₁ e₂ : Event)
    (w₁ : WF hashed e₁) (w₂ : WF hashed e₂)
    (h : hashInput hashed e₁ = hashInput hashed e₂) :
    e₁.source = e₂.source ∧ e₁.type = e₂.type ∧
    ∀ p v, hashed.contains p = true → ((p, v) ∈ e₁.pairs ↔ (p, v) ∈ e₂.pairs) := by
  unfold hashInput at h
  simp only [List.append_assoc, List.cons_append, List.nil_append] at h
  have nl (s : String) (hs : '\n' ∉ s.toList) : (0x0A : UInt8) ∉ utf8 s :=
    byte_not_mem_utf8 s '\n' (by decide) hs
  have s1 := split_first (nl _ w₁.source) (nl _ w₂.source) h
  have s2 := split_first (nl _ w₁.type) (nl _ w₂.type) s1.2
  have helems (e : Event) : ∀ x ∈ canon bytesLt (objStrings hashed e), x ≠ [] ∧ (0xFF : UInt8) ∉ x := by
    intro x hx
    rw [mem_canon bytesLt_strictTotal] at hx
    simp only [objStrings, List.mem_map] at hx
    obtain ⟨pv, _, rfl⟩ := hx
    exact ⟨objString_ne_nil _ _, objString_no_ff _ _⟩
  have hc := joinSep_inj _ _ (helems e₁) (helems e₂) s2.2
  have hmem := (canon_eq_iff bytesLt_strictTotal _ _).mp hc
  refine ⟨Edxml.utf8_injective _ _ s1.1, Edxml.utf8_injective _ _ s2.1, ?_⟩
  have one (a b : Event) (hab : ∀ x, x ∈ objStrings hashed a → x ∈ objStrings hashed b)
      (p v : String) (hh : hashed.contains p = true) (hm : (p, v) ∈ a.pairs) : (p, v) ∈ b.pairs := by
    have : objString p v ∈ objStrings hashed a := by
      simp only [objStrings, List.mem_map, List.mem_filter]
      exact ⟨(p, v), ⟨hm, hh⟩, rfl⟩
    have := hab _ this
    simp only [objStrings, List.mem_map, List.mem_filter] at this
    obtain ⟨⟨p', v'⟩, ⟨hm', hh'⟩, he⟩ := this
    have hp : p ∈ hashed := by simpa using hh
    have hp' : p' ∈ hashed := by simpa using hh'
    obtain ⟨rfl, rfl⟩ := objString_inj p' v' p v (w₁.names p' hp') (w₁.names p hp) he
    exact hm'
  intro p v hh
  exact ⟨one e₁ e₂ (fun x hx => (hmem x).mp hx) p v hh, one e₂ e₁ (fun x hx => (hmem x).mpr hx) p v hh⟩

/-! ### The memo of hashed properties -/

def MemoInv (s : HashedMemo) : Prop := s.cache = none ∨ s.cache = some (hashedOf s.props)

theorem memo_step_inv (s : HashedMemo) (op : MemoOp) (h : MemoInv s) : MemoInv (s.step op).1 := by
  cases op with
  | getHashed =>
    unfold HashedMemo.step
    cases hc : s.cache with
    | some c => simp only; exact h
    | none => simp only; right; rfl
  | setMerge n st =>
    unfold HashedMemo.step; simp only
    split
    · exact h
    · left; rfl
  | addProp n st =>
    unfold HashedMemo.step; simp only
    split
    · exact h
    · left; rfl
  | removeProp n =>
    unfold HashedMemo.step; simp only
    split
    · left; rfl
    · exact h

theorem memo_get (s : HashedMemo) (h : MemoInv s) :
    (s.step .getHashed).2 = hashedOf s.props := by
  unfold HashedMemo.step
  cases hc : s.cache with
  | none => rfl
  | some c =>
    rcases h with h | h
    · rw [hc] at h; cases h
    · rw [hc] at h; cases h; rfl

def runMemo (s : HashedMemo) (ops : List MemoOp) : HashedMemo := ops.foldl (fun s op => (s.step op).1) s

/-- After any history of strategy changes, additions, removals and look-ups, the memoised set of
hashed properties is the set of properties whose strategy is `match` *now*. -/
theorem hashed_memo_sound (props : List (String × String)) (ops : List MemoOp) :
    let s := runMemo { props := props, cache := none } ops
    (s.step .getHashed).2 = hashedOf s.props := by
  have inv : ∀ (ops : List MemoOp) (s : HashedMemo), MemoInv s → MemoInv (runMemo s ops) := by
    intro ops
    induction ops with
    | nil => intro s h; exact h
    | cons op ops ih => intro s h; exact ih _ (memo_step_inv s op h)
  exact memo_get _ (inv ops _ (Or.inl rfl))

/-! ### Non-vacuity -/

def exE : Event := { type := "t", source := "/a/", props := [("a", ["x", "y"]), ("b", ["z"])] }

example : WF ["a"] exE := ⟨by decide, by decide, by decide⟩
example : hashInput ["a"] exE =
    utf8 "/a/" ++ [0x0A] ++ utf8 "t" ++ [0x0A] ++ utf8 "a:x" ++ [0xFF, 0xFF, 0xFF, 0xFF] ++ utf8 "a:y" := by
  decide
example : hashInput ["a"] { exE with props := [("b", ["q"]), ("a", ["y", "x", "y"])] }
    = hashInput ["a"] exE := by decide

end EdxmlProps.C01
