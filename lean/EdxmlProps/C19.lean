/-
C19 — Streaming parse keeps memory bounded.

The children of the root that the machine retains are bounded by a constant plus the number of
foreign elements seen (foreign elements are never released by the parser; events and ontology
elements are), at every event dispatch and for every document length.
-/
import EdxmlModel
import EdxmlProps.Lemmas.Parser
import EdxmlProps.C06
namespace EdxmlProps.C19
open Edxml

def isForeign : Item → Bool
  | .foreign _ => true
  | _ => false

def countForeign (items : List Item) : Nat := (items.filter isForeign).length

def b2n (b : Bool) : Nat := if b then 1 else 0

/-- The retention invariant; `nf` is the number of foreign elements processed so far. -/
structure Inv (s : PState) (nf : Nat) : Prop where
  ontSeen : s.ont.isSome = true → s.initialSeen = true
  nonempty : s.initialSeen = true → 1 ≤ s.children.length
  evSeen : 1 ≤ s.nEvents → s.initialSeen = true
  bound : s.children.length ≤ nf + b2n s.initialSeen + b2n (decide (1 ≤ s.nEvents))
  sizes : ∀ p ∈ s.sizes, p.2 ≤ 3 + nf

theorem inv_init : Inv {} 0 :=
  ⟨fun h => (by cases h), fun h => (by cases h), fun h => (by cases h), (by simp [b2n]), fun p hp => (by cases hp)⟩

theorem length_eraseIdx_one (l : List Kind) (h : 2 ≤ l.length) : (l.eraseIdx 1).length = l.length - 1 := by
  rw [List.length_eraseIdx]; simp; omega

theorem b2n_le (b : Bool) : b2n b ≤ 1 := by unfold b2n; split <;> omega
theorem b2n_true : b2n true = 1 := rfl
theorem b2n_false : b2n false = 0 := rfl

/-- A successful step preserves the invariant. -/
theorem step_inv (reg : Registry) (s s' : PState) (nf : Nat) (it : Item) (hI : Inv s nf)
    (h : pstep reg s it = (s', none)) : Inv s' (nf + b2n (isForeign it)) := by
  have hb := hI.bound
  cases it with
  | foreign idx =>
    simp only [pstep, Prod.mk.injEq, and_true] at h
    subst h
    have hf : b2n (isForeign (Item.foreign idx)) = 1 := rfl
    rw [hf]
    refine ⟨hI.ontSeen, ?_, hI.evSeen, ?_, ?_⟩
    · intro hs; simp
    · show (s.children ++ [Kind.foreign]).length ≤ _
      rw [List.length_append]; simp only [List.length_singleton]; omega
    · intro p hp; have := hI.sizes p hp; omega
  | ont v types sources =>
    have hf : b2n (isForeign (Item.ont v types sources)) = 0 := rfl
    rw [hf]
    cases v with
    | semFail => simp [pstep] at h
    | schemaSemFail => simp [pstep] at h
    | schemaSemOk => simp [pstep] at h
    | ok =>
      simp only [pstep, processOnt] at h
      by_cases hseen : s.initialSeen = true
      · simp only [hseen, if_true, Prod.mk.injEq, and_true] at h
        subst h
        have hne := hI.nonempty hseen
        have hl : ((s.children ++ [Kind.ont]).eraseIdx 1).length = s.children.length := by
          rw [length_eraseIdx_one _ (by simp; omega)]; simp
        rw [hseen] at hb
        refine ⟨fun _ => rfl, ?_, fun _ => rfl, ?_, ?_⟩
        · intro _; show 1 ≤ ((s.children ++ [Kind.ont]).eraseIdx 1).length; rw [hl]; exact hne
        · show ((s.children ++ [Kind.ont]).eraseIdx 1).length ≤ nf + 0 + b2n true + b2n (decide (1 ≤ s.nEvents))
          rw [hl]; omega
        · intro p hp; have := hI.sizes p hp; omega
      · have hfs : s.initialSeen = false := by simpa using hseen
        simp only [hfs, Bool.false_eq_true, if_false, Prod.mk.injEq, and_true] at h
        subst h
        have hev : ¬ (1 ≤ s.nEvents) := fun h1 => hseen (hI.evSeen h1)
        have hd : decide (1 ≤ s.nEvents) = false := by simpa using hev
        rw [hfs, hd, b2n_false] at hb
        refine ⟨fun _ => rfl, ?_, fun _ => rfl, ?_, ?_⟩
        · intro _; show 1 ≤ (s.children ++ [Kind.ont]).length; simp
        · show (s.children ++ [Kind.ont]).length ≤ nf + 0 + b2n true + b2n (decide (1 ≤ s.nEvents))
          rw [hd, b2n_true, b2n_false, List.length_append]; simp only [List.length_singleton]; omega
        · intro p hp; have := hI.sizes p hp; omega
  | event idx type source gateOk =>
    have hf : b2n (isForeign (Item.event idx type source gateOk)) = 0 := rfl
    rw [hf]
    simp only [pstep] at h
    cases hont : s.ont with
    | none => simp [hont] at h
    | some o =>
      obtain ⟨ts, ss⟩ := o
      simp only [hont] at h
      split at h
      · cases h
      · split at h
        · cases h
        · split at h
          · cases h
          · have hseen : s.initialSeen = true := hI.ontSeen (by rw [hont]; rfl)
            have hne := hI.nonempty hseen
            rw [hseen, b2n_true] at hb
            split at h
            · rename_i hgt
              simp only [Prod.mk.injEq, and_true] at h
              subst h
              have hl : ((s.children ++ [Kind.event]).eraseIdx 1).length = s.children.length := by
                rw [length_eraseIdx_one _ (by simp; omega)]; simp
              have hn1 : 1 ≤ s.nEvents := by simp at hgt; omega
              have hd : decide (1 ≤ s.nEvents) = true := by simpa using hn1
              have hd' : decide (1 ≤ s.nEvents + 1) = true := by simp
              rw [hd, b2n_true] at hb
              refine ⟨fun _ => hseen, ?_, fun _ => hseen, ?_, ?_⟩
              · intro _; show 1 ≤ ((s.children ++ [Kind.event]).eraseIdx 1).length; rw [hl]; exact hne
              · show ((s.children ++ [Kind.event]).eraseIdx 1).length ≤ nf + 0 + b2n s.initialSeen + b2n (decide (1 ≤ s.nEvents + 1))
                rw [hl, hseen, hd', b2n_true]; omega
              · intro p hp
                have hp' : p ∈ s.sizes ++ [(idx, (s.children ++ [Kind.event]).length)] := hp
                simp only [List.mem_append, List.mem_singleton] at hp'
                rcases hp' with hp' | rfl
                · have := hI.sizes p hp'; omega
                · show (s.children ++ [Kind.event]).length ≤ _
                  rw [List.length_append]; simp only [List.length_singleton]; omega
            · rename_i hgt
              simp only [Prod.mk.injEq, and_true] at h
              subst h
              have hn0 : s.nEvents = 0 := by simp at hgt; omega
              have hd : decide (1 ≤ s.nEvents) = false := by simp [hn0]
              have hd' : decide (1 ≤ s.nEvents + 1) = true := by simp
              rw [hd, b2n_false] at hb
              refine ⟨fun _ => hseen, ?_, fun _ => hseen, ?_, ?_⟩
              · intro _; show 1 ≤ (s.children ++ [Kind.event]).length; simp
              · show (s.children ++ [Kind.event]).length ≤ nf + 0 + b2n s.initialSeen + b2n (decide (1 ≤ s.nEvents + 1))
                rw [hseen, hd', b2n_true, List.length_append]; simp only [List.length_singleton]; omega
              · intro p hp
                have hp' : p ∈ s.sizes ++ [(idx, (s.children ++ [Kind.event]).length)] := hp
                simp only [List.mem_append, List.mem_singleton] at hp'
                rcases hp' with hp' | rfl
                · have := hI.sizes p hp'; omega
                · show (s.children ++ [Kind.event]).length ≤ _
                  rw [List.length_append]; simp only [List.length_singleton]; omega

/-- A failing step leaves at most one more child and records no dispatch. -/
theorem step_err (reg : Registry) (s s' : PState) (it : Item) (e : PErr)
    (h : pstep reg s it = (s', some e)) :
    s'.children.length ≤ s.children.length + 1 ∧ s'.sizes = s.sizes := by
  have rp : ∀ n (t : PState), (reprocess reg n t).children = t.children ∧ (reprocess reg n t).sizes = t.sizes := by
    intro n
    induction n with
    | zero => intro t; exact ⟨rfl, rfl⟩
    | succ n ih => intro t; simp only [reprocess]; have := ih (processOnt reg t [] []); exact this
  cases it with
  | foreign idx => simp [pstep] at h
  | ont v types sources =>
    cases v with
    | ok => simp only [pstep] at h; split at h <;> cases h
    | semFail =>
      simp only [pstep, Prod.mk.injEq] at h; obtain ⟨rfl, _⟩ := h; simp
    | schemaSemFail =>
      simp only [pstep, Prod.mk.injEq] at h; obtain ⟨rfl, _⟩ := h; simp
    | schemaSemOk =>
      simp only [pstep, Prod.mk.injEq] at h; obtain ⟨rfl, _⟩ := h; simp
  | event idx type source gateOk =>
    simp only [pstep] at h
    cases hont : s.ont with
    | none => simp only [hont, Prod.mk.injEq] at h; obtain ⟨rfl, _⟩ := h; simp
    | some o =>
      simp only [hont] at h
      split at h
      · simp only [Prod.mk.injEq] at h; obtain ⟨rfl, _⟩ := h; simp
      · split at h
        · simp only [Prod.mk.injEq] at h; obtain ⟨rfl, _⟩ := h; simp
        · split at h
          · simp only [Prod.mk.injEq] at h; obtain ⟨rfl, _⟩ := h; simp
          · split at h <;> cases h

theorem countForeign_cons (it : Item) (items : List Item) :
    countForeign (it :: items) = b2n (isForeign it) + countForeign items := by
  unfold countForeign b2n
  simp only [List.filter_cons]
  split <;> simp <;> omega

/-- The invariant along a whole run; on error the last, failing element is still in the tree. -/
theorem run_inv (reg : Registry) : ∀ (items : List Item) (s s' : PState) (nf : Nat) (e : Option PErr),
    Inv s nf → prun reg s items = (s', e) →
    (∀ p ∈ s'.sizes, p.2 ≤ 3 + nf + countForeign items) ∧
    s'.children.length ≤ 3 + nf + countForeign items ∧
    (e = none → Inv s' (nf + countForeign items))
  | [], s, s', nf, e, hI, h => by
    simp only [prun, Prod.mk.injEq] at h
    obtain ⟨rfl, rfl⟩ := h
    have hb := hI.bound
    refine ⟨fun p hp => by have := hI.sizes p hp; simp [countForeign]; omega, ?_, fun _ => by simpa [countForeign] using hI⟩
    simp [countForeign]
    have : b2n s.initialSeen ≤ 1 := by unfold b2n; split <;> omega
    have : b2n (decide (1 ≤ s.nEvents)) ≤ 1 := by unfold b2n; split <;> omega
    omega
  | it :: items, s, s', nf, e, hI, h => by
    simp only [prun] at h
    cases hstep : pstep reg s it with
    | mk s1 e1 =>
      rw [hstep] at h
      cases e1 with
      | none =>
        simp only at h
        have hI1 := step_inv reg s s1 nf it hI hstep
        have ih := run_inv reg items s1 s' _ e hI1 h
        rw [countForeign_cons]
        refine ⟨fun p hp => by have := ih.1 p hp; omega, by have := ih.2.1; omega, fun he => ?_⟩
        have := ih.2.2 he
        rw [← Nat.add_assoc]; exact this
      | some err =>
        simp only [Prod.mk.injEq] at h
        obtain ⟨rfl, rfl⟩ := h
        have se := step_err reg s s1 it err hstep
        have hb := hI.bound
        have : b2n s.initialSeen ≤ 1 := by unfold b2n; split <;> omega
        have : b2n (decide (1 ≤ s.nEvents)) ≤ 1 := by unfold b2n; split <;> omega
        refine ⟨fun p hp => ?_, by omega, fun he => by cases he⟩
        rw [se.2] at hp
        have := hI.sizes p hp; omega

/-- **Bounded retention.** For every document (any length) and every way of feeding it, at every
event dispatch the root retains at most 3 + (number of foreign elements in the document) children:
the initial ontology, at most one already delivered element, the event being delivered. -/
theorem retention_bounded (reg : Registry) (cs : List (List Item)) :
    ∀ p ∈ (feedAll reg {} cs).1.sizes, p.2 ≤ 3 + countForeign cs.flatten := by
  rw [feedAll_eq_prun]
  intro p hp
  have := (run_inv reg cs.flatten {} _ 0 _ inv_init rfl).1 p hp
  omega

/-- Without foreign elements the bound is the constant 3, whatever the number of events. -/
theorem retention_bounded_no_foreign (reg : Registry) (cs : List (List Item))
    (hnf : countForeign cs.flatten = 0) : ∀ p ∈ (feedAll reg {} cs).1.sizes, p.2 ≤ 3 := by
  intro p hp
  have := retention_bounded reg cs p hp
  omega

/-- After the final callback at most 2 + foreign children remain (3 + foreign when parsing stopped
with an error at an element that is then still in the tree). -/
theorem final_retention_bounded (reg : Registry) (cs : List (List Item)) :
    (feedAll reg {} cs).1.children.length ≤ 3 + countForeign cs.flatten ∧
    ((feedAll reg {} cs).2 = none → (feedAll reg {} cs).1.children.length ≤ 2 + countForeign cs.flatten) := by
  rw [feedAll_eq_prun]
  have r := run_inv reg cs.flatten {} _ 0 _ inv_init rfl
  refine ⟨by have := r.2.1; omega, fun he => ?_⟩
  have hI := r.2.2 he
  have hb := hI.bound
  have : b2n (prun reg {} cs.flatten).1.initialSeen ≤ 1 := by unfold b2n; split <;> omega
  have : b2n (decide (1 ≤ (prun reg {} cs.flatten).1.nEvents)) ≤ 1 := by unfold b2n; split <;> omega
  omega

/-- Whenever the machine deletes the second child of the root, a processed child precedes the
element being processed: the deleted child was delivered before (or is the element just
processed), never input that is still pending (with `C06.step_ignores_pending_input`). -/
theorem deletion_hits_processed_child (s : PState) (nf : Nat) (hI : Inv s nf)
    (h : s.initialSeen = true ∨ s.ont.isSome = true) : 1 ≤ s.children.length := by
  rcases h with h | h
  · exact hI.nonempty h
  · exact hI.nonempty (hI.ontSeen h)

/-! ### Non-vacuity -/

example : Inv {} 0 := inv_init
example : (prun C06.exReg {} C06.exDoc).1.sizes = [(1, 2), (3, 4)] := by decide +kernel

end EdxmlProps.C19

/-! ### XML transcoder mediator: the same bound for `_clean_after_transcode` -/

namespace EdxmlProps.C19
open Edxml.XMed

def countOther (ks : List XKind) : Nat := (ks.filter (· == XKind.other)).length

/-- Invariant of the mediator's clean-up, after at least one record: the parent holds the leading
children received before the first record (never cleaned), `other` children (never cleaned), the
last transcoded record, and what was received since (`tail`). -/
structure MInv (s : MState) (lead : List XKind) (seen : List XKind) : Prop where
  shape : ∃ O T, s.children = lead ++ O ++ [XKind.record] ++ T ∧ s.last = some (lead.length + O.length) ∧
    (∀ x ∈ O, x = XKind.other) ∧ (∀ x ∈ T, x ≠ XKind.record) ∧
    O.length + countOther T ≤ countOther seen ∧
    T.length = s.notesSince + countOther T
  log : ∀ p ∈ s.log, p.1 ≤ lead.length + 1 + countOther seen + p.2

theorem countOther_append (a b : List XKind) : countOther (a ++ b) = countOther a + countOther b := by
  simp [countOther, List.filter_append]

theorem filter_ne_note_of_no_record (T : List XKind) (h : ∀ x ∈ T, x ≠ XKind.record) :
    (T.filter (· != XKind.note)).length = countOther T ∧ ∀ x ∈ T.filter (· != XKind.note), x = XKind.other := by
  induction T with
  | nil => simp [countOther]
  | cons x xs ih =>
    have ih' := ih (fun y hy => h y (List.mem_cons_of_mem _ hy))
    have hx := h x (by simp)
    cases x with
    | record => exact absurd rfl hx
    | note =>
      have : (XKind.note != XKind.note) = false := by decide
      have h2 : (XKind.note == XKind.other) = false := by decide
      simp only [List.filter_cons, this, Bool.false_eq_true, if_false, countOther, h2]
      exact ih'
    | other =>
      have : (XKind.other != XKind.note) = true := by decide
      have h2 : (XKind.other == XKind.other) = true := by decide
      simp only [List.filter_cons, this, if_true, countOther, h2, List.length_cons]
      refine ⟨by have := ih'.1; simp only [countOther] at this; omega, ?_⟩
      intro y hy
      rcases List.mem_cons.mp hy with rfl | hy
      · rfl
      · exact ih'.2 y hy

/-- One step preserves the invariant. -/
theorem mstep_inv (s : MState) (lead seen : List XKind) (k : XKind) (h : MInv s lead seen) :
    MInv (mstep s k) lead (seen ++ [k]) := by
  obtain ⟨⟨O, T, hch, hlast, hO, hT, hcnt, hlen⟩, hlog⟩ := h
  have hseen : countOther (seen ++ [k]) = countOther seen + countOther [k] := countOther_append _ _
  cases k with
  | note =>
    have hk : countOther [XKind.note] = 0 := by decide
    refine ⟨⟨O, T ++ [XKind.note], ?_, hlast, hO, ?_, ?_, ?_⟩, ?_⟩
    · simp only [mstep, hch, List.append_assoc]
    · intro x hx
      rcases List.mem_append.mp hx with h1 | h1
      · exact hT x h1
      · simp at h1; subst h1; decide
    · rw [countOther_append, hk, hseen, hk]; omega
    · simp only [mstep, List.length_append, List.length_singleton, countOther_append, hk]; omega
    · intro p hp; have := hlog p hp; rw [hseen, hk]; omega
  | other =>
    have hk : countOther [XKind.other] = 1 := by decide
    refine ⟨⟨O, T ++ [XKind.other], ?_, hlast, hO, ?_, ?_, ?_⟩, ?_⟩
    · simp only [mstep, hch, List.append_assoc]
    · intro x hx
      rcases List.mem_append.mp hx with h1 | h1
      · exact hT x h1
      · simp at h1; subst h1; decide
    · rw [countOther_append, hk, hseen, hk]; omega
    · simp only [mstep, List.length_append, List.length_singleton, countOther_append, hk]; omega
    · intro p hp; have := hlog p hp; rw [hseen, hk]; omega
  | record =>
    have hk : countOther [XKind.record] = 0 := by decide
    have fl := filter_ne_note_of_no_record T hT
    -- the tree before the clean-up, and the pieces the clean-up looks at
    have hidx : s.children.length = lead.length + O.length + 1 + T.length := by
      rw [hch]; simp only [List.length_append, List.length_singleton]
    have hch' : s.children ++ [XKind.record] = (lead ++ O) ++ XKind.record :: (T ++ [XKind.record]) := by
      rw [hch]; simp only [List.append_assoc, List.cons_append, List.nil_append, List.singleton_append]
    have herase : (s.children ++ [XKind.record]).eraseIdx (lead.length + O.length) = (lead ++ O) ++ (T ++ [XKind.record]) := by
      rw [hch']
      have : lead.length + O.length = (lead ++ O).length := by simp
      rw [this, List.eraseIdx_append_of_length_le (Nat.le_refl _)]
      simp
    refine ⟨⟨O ++ T.filter (· != XKind.note), [], ?_, ?_, ?_, ?_, ?_, ?_⟩, ?_⟩
    · simp only [mstep, hlast, herase]
      have t1 : ((lead ++ O) ++ (T ++ [XKind.record])).take (lead.length + O.length) = lead ++ O := by
        have : lead.length + O.length = (lead ++ O).length := by simp
        rw [this, List.take_left]
      have d1 : ((lead ++ O) ++ (T ++ [XKind.record])).drop (lead.length + O.length) = T ++ [XKind.record] := by
        have : lead.length + O.length = (lead ++ O).length := by simp
        rw [this, List.drop_left]
      have hm : s.children.length - 1 - (lead.length + O.length) = T.length := by omega
      have t2 : (T ++ [XKind.record]).take T.length = T := List.take_left
      have d2 : ((lead ++ O) ++ (T ++ [XKind.record])).drop (s.children.length - 1) = [XKind.record] := by
        have : s.children.length - 1 = (lead ++ O ++ T).length := by simp; omega
        rw [this, ← List.append_assoc, List.drop_left]
      rw [t1, d1, hm, t2, d2]
      simp only [List.append_assoc, List.append_nil]
    · simp only [mstep, hlast, herase]
      have t1 : ((lead ++ O) ++ (T ++ [XKind.record])).take (lead.length + O.length) = lead ++ O := by
        have : lead.length + O.length = (lead ++ O).length := by simp
        rw [this, List.take_left]
      have d1 : ((lead ++ O) ++ (T ++ [XKind.record])).drop (lead.length + O.length) = T ++ [XKind.record] := by
        have : lead.length + O.length = (lead ++ O).length := by simp
        rw [this, List.drop_left]
      have hm : s.children.length - 1 - (lead.length + O.length) = T.length := by omega
      have t2 : (T ++ [XKind.record]).take T.length = T := List.take_left
      rw [t1, d1, hm, t2]
      simp only [List.length_append]; congr 1; omega
    · intro x hx
      rcases List.mem_append.mp hx with h1 | h1
      · exact hO x h1
      · exact fl.2 x h1
    · intro x hx; cases hx
    · have e0 : countOther ([] : List XKind) = 0 := rfl
      rw [hseen, hk, List.length_append, fl.1, e0]; omega
    · simp [mstep, hlast, countOther]
    · intro p hp
      simp only [mstep, hlast] at hp
      rcases List.mem_append.mp hp with h1 | h1
      · have := hlog p h1; rw [hseen, hk]; omega
      · simp at h1; subst h1
        simp only
        rw [hseen, hk, hidx]
        have := fl.1
        omega

/-- **Bounded retention in the XML transcoder mediator.** Let `lead` be the children received
before the first record of a parent element (`cross` tells whether an element of another parent was
transcoded before). Whatever follows, when a record is delivered its parent holds at most
`lead.length + 1 + (number of children without any transcoder) + (discardable children received
since the previous record)` earlier children: nothing that grows with the number of records. -/
theorem xmed_retention_bounded (cross : Bool) (lead rest : List XKind) (hl : ∀ x ∈ lead, x ≠ XKind.record) :
    ∀ p ∈ (mrun { cross := cross } (lead ++ XKind.record :: rest)).log,
      p.1 ≤ lead.length + 1 + countOther (lead ++ XKind.record :: rest) + p.2 := by
  -- before the first record nothing is cleaned and nothing is logged
  have pre : ∀ (l done : List XKind), (∀ x ∈ l, x ≠ XKind.record) →
      mrun { children := done, notesSince := (done.filter (· == XKind.note)).length, cross := cross } l =
        { children := done ++ l, notesSince := ((done ++ l).filter (· == XKind.note)).length, cross := cross } := by
    intro l
    induction l with
    | nil => intro done _; simp [mrun]
    | cons x xs ih =>
      intro done h
      have hx := h x (by simp)
      have := ih (done ++ [x]) (fun y hy => h y (List.mem_cons_of_mem _ hy))
      simp only [mrun, List.foldl_cons] at this ⊢
      cases x with
      | record => exact absurd rfl hx
      | note =>
        have e : (XKind.note == XKind.note) = true := by decide
        simp only [mstep]
        simp only [List.filter_append, List.filter_cons, List.filter_nil, e, if_true, List.length_append,
          List.length_singleton, List.append_assoc, List.singleton_append] at this ⊢
        exact this
      | other =>
        have e : (XKind.other == XKind.note) = false := by decide
        simp only [mstep]
        simp only [List.filter_append, List.filter_cons, List.filter_nil, e, Bool.false_eq_true, if_false,
          List.length_append, List.length_nil, Nat.add_zero, List.append_assoc, List.singleton_append] at this ⊢
        exact this
  have h0 := pre lead [] hl
  simp only [List.filter_nil, List.length_nil, List.nil_append] at h0
  -- the children that precede the first record and survive its clean-up
  let lead' := if cross then lead.filter (· != XKind.note) else lead
  have hlen' : lead'.length ≤ lead.length := by
    show (if cross then lead.filter (· != XKind.note) else lead).length ≤ lead.length
    cases cross
    · simp
    · simp only [if_true]; exact List.length_filter_le _ _
  have hfirst : MInv (mstep (mrun { cross := cross } lead) XKind.record) lead' (lead ++ [XKind.record]) ∧
      ∀ p ∈ (mstep (mrun { cross := cross } lead) XKind.record).log, p.1 ≤ lead.length := by
    have e0 : (mrun { cross := cross } lead) =
        { children := lead, notesSince := (lead.filter (· == XKind.note)).length, cross := cross } := h0
    rw [e0]
    cases cross with
    | false =>
      refine ⟨⟨⟨[], [], ?_, ?_, ?_, ?_, ?_, ?_⟩, ?_⟩, ?_⟩
      · simp [mstep, lead']
      · simp [mstep, lead']
      · intro x hx; cases hx
      · intro x hx; cases hx
      · simp [countOther]
      · simp [mstep, countOther]
      · intro p hp
        simp only [mstep, Bool.false_eq_true, if_false, List.nil_append, List.mem_singleton] at hp
        subst hp
        simp only [lead', Bool.false_eq_true, if_false]
        omega
      · intro p hp
        simp only [mstep, Bool.false_eq_true, if_false, List.nil_append, List.mem_singleton] at hp
        subst hp; simp
    | true =>
      refine ⟨⟨⟨[], [], ?_, ?_, ?_, ?_, ?_, ?_⟩, ?_⟩, ?_⟩
      · simp [mstep, lead']
      · simp [mstep, lead']
      · intro x hx; cases hx
      · intro x hx; cases hx
      · simp [countOther]
      · simp [mstep, countOther]
      · intro p hp
        simp only [mstep, if_true, List.nil_append, List.mem_singleton] at hp
        subst hp
        simp only
        -- the logged index is lead.length, which the filtered lead may undercut; bound via `lead`
        have : lead.length ≤ lead'.length + 1 + countOther (lead ++ [XKind.record]) +
            (lead.filter (· == XKind.note)).length := by
          -- every element of lead is a note or survives the filter
          have split : lead.length = (lead.filter (· != XKind.note)).length + (lead.filter (· == XKind.note)).length := by
            clear pre h0 e0 hlen'
            induction lead with
            | nil => rfl
            | cons x xs ih =>
              have := ih (fun y hy => hl y (List.mem_cons_of_mem _ hy))
              cases x <;> simp [List.filter_cons] <;> omega
          show lead.length ≤ (if true = true then lead.filter (· != XKind.note) else lead).length + 1 + _ + _
          simp only [if_true]
          omega
        exact this
      · intro p hp
        simp only [mstep, if_true, List.nil_append, List.mem_singleton] at hp
        subst hp; simp
  have hrest : ∀ (r : List XKind) (s : MState) (seen : List XKind), MInv s lead' seen →
      MInv (mrun s r) lead' (seen ++ r) := by
    intro r
    induction r with
    | nil => intro s seen h; simpa [mrun] using h
    | cons k ks ih =>
      intro s seen h
      have := ih (mstep s k) (seen ++ [k]) (mstep_inv s lead' seen k h)
      simpa [mrun, List.append_assoc] using this
  have hfinal := hrest rest _ _ hfirst.1
  have e : mrun { cross := cross } (lead ++ XKind.record :: rest) =
      mrun (mstep (mrun { cross := cross } lead) XKind.record) rest := by
    simp [mrun, List.foldl_append]
  rw [e]
  intro p hp
  have := hfinal.log p hp
  have e2 : lead ++ [XKind.record] ++ rest = lead ++ XKind.record :: rest := by simp
  rw [e2] at this
  omega

example : (mrun {} [.record, .note, .other, .record, .note, .other, .record]).log = [(0, 0), (3, 1), (4, 1)] := by
  decide

end EdxmlProps.C19
