/-
C07. Event representations are interchangeable and stay coherent under mutation.

The XML-backed representation (model: `EdxmlModel/Event/Mutation.lean`) refines a dictionary of
sets: after every public mutation, what the `<event>` element holds for any property / attachment
is what the same mutation gives on a dictionary of sets; the element never holds duplicates; a
copy evolves independently of its original.
-/
import EdxmlModel.Event.Mutation
import EdxmlProps.Lemmas.Merge
import EdxmlProps.Lemmas.Stream
namespace EdxmlProps.C07
open Edxml Edxml.Mut

/-! ### the dictionary-of-sets specification -/

/-- a dictionary of sets, as a function from property names to canonical object sets -/
abbrev Dict := String → List String

/-- the last entry for `p` in a list of assignments, if any -/
def lastFor (ps : List (String × List String)) (p : String) : Option (List String) :=
  (ps.reverse.find? (·.1 == p)).map (·.2)

def specProps (d : Dict) : Op → Dict
  | .setProp k vs => fun p => if p = k then canonS vs else d p
  | .delProp k => fun p => if p = k then [] else d p
  | .addObj k v => fun p => if p = k then canonS (d k ++ [v]) else d p
  | .removeObj k v => fun p => if p = k then canonS ((d k).filter (· != v)) else d p
  | .updateObjs k vs => fun p => if p = k then canonS (d k ++ vs) else d p
  | .clearObjs k => fun p => if p = k then [] else d p
  | .setProperties ps => fun p => match lastFor ps p with
    | some vs => canonS vs
    | none => []
  | _ => d

/-! ### `__update_property` -/

theorem canonS_dedup (l : List String) : canonS (dedup l) = canonS l :=
  (canonS_eq_iff _ _).mpr fun a => mem_firstOccurrences a l

theorem objects_updateProp (x : XmlEv) (k : String) (vs : List String) (p : String) :
    (updateProp x k vs).objects p = if p = k then canonS vs else x.objects p := by
  unfold XmlEv.objects updateProp
  simp only [List.filter_append, List.map_append, List.filter_filter]
  by_cases h : p = k
  · subst h
    simp only [if_true]
    have h1 : x.props.filter (fun a => (a.1 == p) && (a.1 != p)) = [] := by
      rw [List.filter_eq_nil_iff]; intro a _; simp
    have h2 : ((dedup vs).map fun v => (p, v)).filter (fun a => a.1 == p) = (dedup vs).map fun v => (p, v) := by
      rw [List.filter_eq_self]; intro a ha
      obtain ⟨v, _, rfl⟩ := List.mem_map.mp ha; simp
    rw [h1, h2]
    simp only [List.map_nil, List.nil_append, List.map_map, Function.comp_def, List.map_id']
    exact canonS_dedup vs
  · simp only [if_neg h]
    have h1 : x.props.filter (fun a => (a.1 == p) && (a.1 != k)) = x.props.filter (fun a => a.1 == p) := by
      apply List.filter_congr; intro a _
      by_cases ha : a.1 = p
      · simp [ha, h]
      · simp [ha]
    have h2 : ((dedup vs).map fun v => (k, v)).filter (fun a => a.1 == p) = [] := by
      rw [List.filter_eq_nil_iff]; intro a ha
      obtain ⟨v, _, rfl⟩ := List.mem_map.mp ha
      simp only [beq_iff_eq]; exact fun e => h e.symm
    rw [h1, h2]; simp

theorem canonS_objects (x : XmlEv) (p : String) : canonS (x.objects p) = x.objects p := by
  unfold XmlEv.objects; exact canonS_idem _

theorem objects_empty_props (x : XmlEv) (p : String) : ({ x with props := [] } : XmlEv).objects p = [] := rfl

theorem lastFor_cons (a : String × List String) (l : List (String × List String)) (p : String) :
    lastFor (a :: l) p = match lastFor l p with
      | some vs => some vs
      | none => if a.1 = p then some a.2 else none := by
  unfold lastFor
  simp only [List.reverse_cons, List.find?_append]
  cases h : l.reverse.find? (fun x => x.1 == p) with
  | some b => simp
  | none =>
    simp only [Option.none_or, Option.map_none, List.find?_cons, List.find?_nil]
    by_cases ha : a.1 = p
    · simp [ha]
    · have : (a.1 == p) = false := by simpa using ha
      simp [ha, this]

theorem objects_foldl_updateProp (ps : List (String × List String)) : ∀ (x : XmlEv) (p : String),
    (ps.foldl (fun x pv => updateProp x pv.1 pv.2) x).objects p =
      match lastFor ps p with
      | some vs => canonS vs
      | none => x.objects p := by
  induction ps with
  | nil => intro x p; rfl
  | cons a l ih =>
    intro x p
    rw [List.foldl_cons, ih, lastFor_cons]
    cases lastFor l p with
    | some vs => rfl
    | none =>
      simp only [objects_updateProp]
      by_cases h : p = a.1
      · simp [h]
      · have h' : ¬ a.1 = p := fun e => h e.symm
        simp [h, h']

/-- C07 for properties: every public mutation of the XML-backed event is the same mutation of
the dictionary of sets. -/
theorem xml_refines_dict (x : XmlEv) (op : Op) : (step x op).objects = specProps x.objects op := by
  funext p
  cases op with
  | setProp k vs => exact objects_updateProp x k vs p
  | delProp k =>
    simp only [step, specProps, objects_updateProp]
    split <;> first | rfl | skip
  | addObj k v => simp only [step, specProps, objects_updateProp]
  | removeObj k v => simp only [step, specProps, objects_updateProp]
  | updateObjs k vs => simp only [step, specProps, objects_updateProp]
  | clearObjs k =>
    simp only [step, specProps, objects_updateProp]
    split <;> first | rfl | skip
  | setProperties ps =>
    simp only [step, specProps, objects_foldl_updateProp]
    cases lastFor ps p <;> rfl
  | setAttachment n items =>
    simp only [step, specProps, setAttachment]
    have : ∀ (l : List (String × String)) (y : XmlEv),
        (l.foldl (fun x iv => updateAtt x n (some iv.1) (some iv.2)) y).props = y.props := by
      intro l; induction l with
      | nil => intro y; rfl
      | cons a l ih => intro y; rw [List.foldl_cons, ih]; simp only [updateAtt]
    unfold XmlEv.objects; rw [this]; simp only [updateAtt]
  | delAttachment n => simp only [step, specProps, updateAtt, XmlEv.objects]
  | setAttValue n i v => simp only [step, specProps, updateAtt, XmlEv.objects]
  | delAttValue n i => simp only [step, specProps, updateAtt, XmlEv.objects]
  | setAttachments as =>
    simp only [step, specProps]
    have inner : ∀ (n : String) (l : List (String × String)) (y : XmlEv), (setAttachment y n l).props = y.props := by
      intro n l y
      unfold setAttachment
      have : ∀ (l : List (String × String)) (y : XmlEv),
          (l.foldl (fun x iv => updateAtt x n (some iv.1) (some iv.2)) y).props = y.props := by
        intro l; induction l with
        | nil => intro y; rfl
        | cons a l ih => intro y; rw [List.foldl_cons, ih]; simp only [updateAtt]
      rw [this]; simp only [updateAtt]
    have : ∀ (l : List (String × List (String × String))) (y : XmlEv),
        (l.foldl (fun x a => setAttachment x a.1 a.2) y).props = y.props := by
      intro l; induction l with
      | nil => intro y; rfl
      | cons a l ih => intro y; rw [List.foldl_cons, ih, inner]
    unfold XmlEv.objects; rw [this]
  | setParents ps => rfl
  | addParents ps => rfl
  | setType t => rfl
  | setSource s => rfl
  | setForeign kv => rfl
  | read => rfl

/-- reading never changes the event -/
theorem reads_do_not_change (x : XmlEv) : step x .read = x := rfl

theorem setProp_idempotent (x : XmlEv) (k : String) (vs : List String) :
    (step (step x (.setProp k vs)) (.setProp k vs)).objects = (step x (.setProp k vs)).objects := by
  rw [xml_refines_dict, xml_refines_dict]
  funext p
  simp only [specProps]
  split <;> rfl

/-- operations on one property leave every other property alone -/
theorem props_ops_only_touch_their_property (x : XmlEv) (k v : String) (vs : List String) (p : String) (h : p ≠ k) :
    (step x (.setProp k vs)).objects p = x.objects p ∧ (step x (.delProp k)).objects p = x.objects p ∧
    (step x (.addObj k v)).objects p = x.objects p ∧ (step x (.removeObj k v)).objects p = x.objects p ∧
    (step x (.updateObjs k vs)).objects p = x.objects p ∧ (step x (.clearObjs k)).objects p = x.objects p := by
  simp only [xml_refines_dict, specProps, if_neg h, and_self]

/-! ### `__update_attachment` -/

theorem find?_filter' {α} (q p : α → Bool) : ∀ (l : List α), (l.filter q).find? p = l.find? (fun a => q a && p a)
  | [] => rfl
  | a :: l => by
    by_cases hq : q a = true
    · rw [List.filter_cons_of_pos hq, List.find?_cons, List.find?_cons, find?_filter' q p l]
      simp [hq]
    · have hq' : q a = false := by simpa using hq
      rw [List.filter_cons_of_neg hq, List.find?_cons, find?_filter' q p l]
      simp [hq']

theorem find?_ext {α} {p q : α → Bool} (l : List α) (h : ∀ a, p a = q a) : l.find? p = l.find? q := by
  have : p = q := funext h
  rw [this]

theorem find?_none_of_false {α} {p : α → Bool} (l : List α) (h : ∀ a, p a = false) : l.find? p = none := by
  rw [List.find?_eq_none]; intro a _; simp [h a]

theorem attValue_updateAtt_set (x : XmlEv) (n i v n' i' : String) :
    (updateAtt x n (some i) (some v)).attValue n' i' =
      if n' = n ∧ i' = i then some v else x.attValue n' i' := by
  unfold XmlEv.attValue updateAtt
  simp only [List.find?_append, find?_filter']
  by_cases h : n' = n ∧ i' = i
  · obtain ⟨rfl, rfl⟩ := h
    rw [find?_none_of_false x.atts (by intro a; cases (a.1 == n' && a.2.1 == i') <;> rfl)]
    simp
  · rw [if_neg h]
    have hne : ((n == n') && (i == i')) = false := by
      rw [Bool.and_eq_false_iff]
      by_cases h1 : n = n'
      · right; rw [beq_eq_false_iff_ne]; intro e; exact h ⟨h1.symm, e.symm⟩
      · left; rw [beq_eq_false_iff_ne]; exact h1
    have hc : x.atts.find? (fun a => !(a.1 == n && a.2.1 == i) && (a.1 == n' && a.2.1 == i')) =
        x.atts.find? (fun a => a.1 == n' && a.2.1 == i') := by
      apply find?_ext; intro a
      by_cases ha : (a.1 == n' && a.2.1 == i') = true
      · rw [ha, Bool.and_true]
        simp only [Bool.and_eq_true, beq_iff_eq] at ha
        rw [Bool.not_eq_true', Bool.and_eq_false_iff]
        by_cases h1 : a.1 = n
        · right; rw [beq_eq_false_iff_ne]; intro e; exact h ⟨ha.1.symm.trans h1, ha.2.symm.trans e⟩
        · left; rw [beq_eq_false_iff_ne]; exact h1
      · have : (a.1 == n' && a.2.1 == i') = false := by simpa using ha
        rw [this, Bool.and_false]
    rw [hc]
    cases x.atts.find? (fun a => a.1 == n' && a.2.1 == i') with
    | some a => simp
    | none => simp [List.find?_cons, hne]

theorem attValue_updateAtt_del (x : XmlEv) (n i n' i' : String) :
    (updateAtt x n (some i) none).attValue n' i' = if n' = n ∧ i' = i then none else x.attValue n' i' := by
  unfold XmlEv.attValue updateAtt
  simp only [find?_filter']
  by_cases h : n' = n ∧ i' = i
  · obtain ⟨rfl, rfl⟩ := h
    rw [find?_none_of_false x.atts (by intro a; cases (a.1 == n' && a.2.1 == i') <;> rfl)]
    simp
  · rw [if_neg h]
    congr 1
    apply find?_ext; intro a
    by_cases ha : (a.1 == n' && a.2.1 == i') = true
    · rw [ha, Bool.and_true]
      simp only [Bool.and_eq_true, beq_iff_eq] at ha
      rw [Bool.not_eq_true', Bool.and_eq_false_iff]
      by_cases h1 : a.1 = n
      · right; rw [beq_eq_false_iff_ne]; intro e; exact h ⟨ha.1.symm.trans h1, ha.2.symm.trans e⟩
      · left; rw [beq_eq_false_iff_ne]; exact h1
    · have : (a.1 == n' && a.2.1 == i') = false := by simpa using ha
      rw [this, Bool.and_false]

theorem attValue_delAttachment (x : XmlEv) (n n' i' : String) :
    (updateAtt x n none none).attValue n' i' = if n' = n then none else x.attValue n' i' := by
  unfold XmlEv.attValue updateAtt
  simp only [find?_filter']
  by_cases h : n' = n
  · subst h
    rw [find?_none_of_false x.atts (by intro a; by_cases e : a.1 = n' <;> simp [e])]
    simp
  · rw [if_neg h]
    congr 1
    apply find?_ext; intro a
    by_cases ha : (a.1 == n' && a.2.1 == i') = true
    · rw [ha, Bool.and_true]
      simp only [Bool.and_eq_true, beq_iff_eq] at ha
      simp only [bne_iff_ne, ne_eq, decide_eq_true_eq]
      intro e; exact h (ha.1.symm.trans e)
    · have : (a.1 == n' && a.2.1 == i') = false := by simpa using ha
      rw [this, Bool.and_false]

/-! ### the element never holds duplicates -/

structure WF (x : XmlEv) : Prop where
  props : x.props.Nodup
  atts : (x.atts.map fun a => (a.1, a.2.1)).Nodup

theorem wf_updateProp (x : XmlEv) (k : String) (vs : List String) (h : WF x) : WF (updateProp x k vs) := by
  refine ⟨?_, h.atts⟩
  unfold updateProp
  simp only
  rw [List.nodup_append]
  refine ⟨h.props.filter _, ?_, ?_⟩
  · have hn := nodup_firstOccurrences vs
    unfold List.Nodup at hn ⊢
    exact List.Pairwise.map _ (fun a b hab e => hab (by simpa using e)) hn
  · intro a ha b hb e
    subst e
    obtain ⟨v, _, rfl⟩ := List.mem_map.mp hb
    have := (List.mem_filter.mp ha).2
    simp at this

theorem wf_updateAtt (x : XmlEv) (n : String) (i v : Option String) (h : WF x) : WF (updateAtt x n i v) := by
  refine ⟨?_, ?_⟩
  · unfold updateAtt; cases i <;> cases v <;> exact h.props
  · unfold updateAtt
    cases i with
    | none =>
      cases v <;> simp only <;> exact (List.Nodup.sublist (List.Sublist.map _ List.filter_sublist) h.atts)
    | some i =>
      cases v with
      | none => simp only; exact (List.Nodup.sublist (List.Sublist.map _ List.filter_sublist) h.atts)
      | some v =>
        simp only [List.map_append, List.map_cons, List.map_nil]
        rw [List.nodup_append]
        refine ⟨List.Nodup.sublist (List.Sublist.map _ List.filter_sublist) h.atts, by simp, ?_⟩
        intro a ha b hb e
        subst e
        simp only [List.mem_singleton] at hb
        obtain ⟨c, hc, rfl⟩ := List.mem_map.mp ha
        have := (List.mem_filter.mp hc).2
        simp only [Prod.mk.injEq] at hb
        simp [hb.1, hb.2] at this

theorem wf_foldl {β : Type} (f : XmlEv → β → XmlEv) (hf : ∀ x b, WF x → WF (f x b)) :
    ∀ (l : List β) (x : XmlEv), WF x → WF (l.foldl f x)
  | [], _, h => h
  | b :: l, x, h => wf_foldl f hf l (f x b) (hf x b h)

theorem wf_setAttachment (x : XmlEv) (n : String) (items : List (String × String)) (h : WF x) :
    WF (setAttachment x n items) :=
  wf_foldl _ (fun y iv hy => wf_updateAtt y n _ _ hy) items _ (wf_updateAtt x n none none h)

/-- C07: whatever is done to the event through its public interface, the XML element handed to
writers holds no duplicate objects and no duplicate attachment identifiers. -/
theorem element_has_no_duplicates (x : XmlEv) (op : Op) (h : WF x) : WF (step x op) := by
  cases op with
  | setProp k vs => exact wf_updateProp x k vs h
  | delProp k => exact wf_updateProp x k [] h
  | addObj k v => exact wf_updateProp x k _ h
  | removeObj k v => exact wf_updateProp x k _ h
  | updateObjs k vs => exact wf_updateProp x k _ h
  | clearObjs k => exact wf_updateProp x k [] h
  | setProperties ps =>
    exact wf_foldl _ (fun y pv hy => wf_updateProp y pv.1 pv.2 hy) ps _ ⟨List.nodup_nil, h.atts⟩
  | setAttachment n items => exact wf_setAttachment x n items h
  | delAttachment n => exact wf_updateAtt x n none none h
  | setAttValue n i v => exact wf_updateAtt x n (some i) (some v) h
  | delAttValue n i => exact wf_updateAtt x n (some i) none h
  | setAttachments as => exact wf_foldl _ (fun y a hy => wf_setAttachment y a.1 a.2 hy) as x h
  | setParents ps => exact ⟨h.props, h.atts⟩
  | addParents ps => exact ⟨h.props, h.atts⟩
  | setType t => exact ⟨h.props, h.atts⟩
  | setSource s => exact ⟨h.props, h.atts⟩
  | setForeign kv => exact ⟨h.props, h.atts⟩
  | read => exact h

/-! ### an original and its copies -/

/-- the specification of a run: one dictionary per live object -/
def specCmd (ds : List Dict) : Cmd → List Dict
  | .op i o => match ds[i]? with
    | some d => ds.set i (specProps d o)
    | none => ds
  | .copy i => match ds[i]? with
    | some d => ds ++ [d]
    | none => ds

theorem runCmd_refines (xs : List XmlEv) (c : Cmd) :
    (runCmd xs c).map (·.objects) = specCmd (xs.map (·.objects)) c := by
  cases c with
  | op i o =>
    simp only [runCmd, specCmd, List.getElem?_map]
    cases h : xs[i]? with
    | none => simp
    | some x => simp [List.map_set, xml_refines_dict]
  | copy i =>
    simp only [runCmd, specCmd, List.getElem?_map]
    cases h : xs[i]? with
    | none => simp
    | some x => simp

/-- C07: for every sequence of mutations and copies, applied to the original or to any copy, every
live XML-backed event holds what the dictionary-of-sets model holds. -/
theorem run_refines (cs : List Cmd) : ∀ (xs : List XmlEv),
    (run xs cs).map (·.objects) = cs.foldl specCmd (xs.map (·.objects)) := by
  induction cs with
  | nil => intro xs; rfl
  | cons c cs ih =>
    intro xs
    simp only [run, List.foldl_cons]
    have := ih (runCmd xs c)
    simp only [run] at this
    rw [this, runCmd_refines]

/-- a mutation of one live object leaves every other live object as it was: a copy never shares
state with its original -/
theorem copy_independent (xs : List XmlEv) (i j : Nat) (o : Op) (h : i ≠ j) :
    (runCmd xs (.op i o))[j]? = xs[j]? := by
  simp only [runCmd]
  cases hx : xs[i]? with
  | none => rfl
  | some x => simp [List.getElem?_set, h]

/-- a copy starts out equal to its original -/
theorem copy_equal (xs : List XmlEv) (i : Nat) (x : XmlEv) (h : xs[i]? = some x) :
    (runCmd xs (.copy i))[xs.length]? = some x := by
  simp [runCmd, h]

/-! ### Non-vacuity -/

example : WF { type := "t", source := "/s/", props := [("p", "a"), ("p", "b")], atts := [("x", "i", "v")] } :=
  ⟨by decide, by decide⟩
example : (step { type := "t", source := "/s/", props := [("p", "a"), ("q", "c")] } (.addObj "p" "b")).props =
    [("q", "c"), ("p", "a"), ("p", "b")] := by decide +kernel

end EdxmlProps.C07
