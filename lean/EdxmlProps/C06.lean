/-
C06 — Push parsing does not depend on how the byte stream is cut into chunks.

At the level of the parser machine a chunking of the byte stream is a partition of the sequence
of completed top-level elements. The theorems say that such a partition is immaterial, and that
the one place where a step touches the lxml tree (the deletion of the second child of the root)
never reaches the part of the tree that holds input received but not yet delivered.
-/
import EdxmlModel
import EdxmlProps.Lemmas.Parser
namespace EdxmlProps.C06
open Edxml

/-- Feeding chunk by chunk is processing the concatenation. -/
theorem feed_join (reg : Registry) (cs : List (List Item)) (s : PState) :
    feedAll reg s cs = prun reg s cs.flatten := feedAll_eq_prun reg cs s

/-- **Chunking is irrelevant**: any two partitions of the same element sequence give the same
callbacks, counters, retained tree and error. -/
theorem chunking_irrelevant (reg : Registry) (cs₁ cs₂ : List (List Item)) (s : PState)
    (h : cs₁.flatten = cs₂.flatten) : feedAll reg s cs₁ = feedAll reg s cs₂ := by
  rw [feed_join, feed_join, h]

/-- One chunk, element-wise feeding and everything in between agree with pull-parsing the whole. -/
theorem push_eq_pull (reg : Registry) (items : List Item) (cs : List (List Item))
    (h : cs.flatten = items) : feedAll reg {} cs = prun reg {} items := by
  rw [feed_join, h]

/-- The deletion rule `del root[1]` acts on the whole lxml tree, which also holds the siblings
received after the element being processed (`pending`). As long as a processed child precedes the
current element, the deletion stays inside the processed part: pending input is left alone and
does not influence what is deleted. (`C19.deletion_hits_processed_child` shows the premise holds
whenever the machine deletes.) -/
theorem step_ignores_pending_input (processed : List Kind) (current : Kind) (pending : List Kind)
    (h : 1 ≤ processed.length) :
    ((processed ++ [current]) ++ pending).eraseIdx 1 = (processed ++ [current]).eraseIdx 1 ++ pending := by
  apply List.eraseIdx_append_of_lt_length
  simp; omega

/-! ### Non-vacuity -/

def exReg : Registry where
  typeH := [("ta", [0])]
  srcH := [("/a/.*", [1])]
  reMatch := [("/a/.*", "/a/b/")]
  overridden := false
  validate := true

def exDoc : List Item :=
  [.ont .ok ["ta"] ["/a/b/"], .event 1 "ta" "/a/b/" true, .ont .ok ["tb"] [], .foreign 2,
   .event 3 "ta" "/a/b/" true]

example : feedAll exReg {} [[.ont .ok ["ta"] ["/a/b/"], .event 1 "ta" "/a/b/" true], [], [.ont .ok ["tb"] []],
    [.foreign 2, .event 3 "ta" "/a/b/" true]] = prun exReg {} exDoc :=
  push_eq_pull exReg exDoc _ rfl
example : (prun exReg {} exDoc).1.log =
    [.ontology ["ta"] ["/a/b/"], .handler 0 1, .handler 1 1, .ontology ["ta", "tb"] ["/a/b/"], .foreign 2,
     .handler 0 3, .handler 1 3] := by decide +kernel

end EdxmlProps.C06
