/-
C09 — Version comparison of ontology definitions is a consistent order.
-/
import EdxmlModel
import EdxmlProps.Lemmas.Ont
import EdxmlProps.Lemmas.OntCmp
namespace EdxmlProps.C09
open Edxml.Ont

/-! ### flags of the flat element kinds in normal form -/

theorem conceptFlags_nf (o n : ConceptDef) (vo vn : Nat) :
    conceptFlags o n vo vn = ({} : Flags).ap (o.free == n.free) true false := by
  simp only [conceptFlags, andEqual_ap]

theorem objectTypeFlags_nf (o n : ObjectTypeDef) (vo vn : Nat) :
    objectTypeFlags o n vo vn = ({} : Flags).ap
      (o.free == n.free && (o.regexHard == n.regexHard) && (o.dataType == n.dataType))
      (true && ((o.regexHard == n.regexHard) || regexUpgradeOk o.regexHard n.regexHard) &&
        ((o.dataType == n.dataType) || dataTypeUpgradeOk o.dataType n.dataType))
      false := by
  simp only [objectTypeFlags, andEqual_ap, mono_ap, ap_ap, Bool.or_false]

theorem assocFlags_nf (o n : AssocDef) (vo vn : Nat) :
    assocFlags o n vo vn = ({} : Flags).ap
      ((o.property == n.property) && (o.ext == n.ext) && (o.free == n.free))
      ((o.property == n.property) && (o.ext == n.ext) && true) false := by
  simp only [assocFlags, andEqual_ap, frozen_ap, ap_ap, Bool.or_false]

theorem relationFlags_nf (o n : RelationDef) (vo vn : Nat) :
    relationFlags o n vo vn = ({} : Flags).ap
      ((o.source == n.source) && (o.target == n.target) && (o.sourceConcept == n.sourceConcept) &&
        (o.targetConcept == n.targetConcept) && (o.type == n.type) && (o.free == n.free))
      ((o.source == n.source) && (o.target == n.target) && (o.sourceConcept == n.sourceConcept) &&
        (o.targetConcept == n.targetConcept) && (o.type == n.type) && true) false := by
  simp only [relationFlags, andEqual_ap, frozen_ap, ap_ap, Bool.or_false]

theorem parentFlags_nf (o n : ParentDef) (vo vn : Nat) :
    parentFlags o n vo vn = ({} : Flags).ap
      ((o.parentType == n.parentType) && (o.propertyMap == n.propertyMap) && (o.free == n.free))
      ((o.parentType == n.parentType) && (o.propertyMap == n.propertyMap) && true) false := by
  simp only [parentFlags, andEqual_ap, frozen_ap, ap_ap, Bool.or_false]

theorem attachmentFlags_nf (o n : AttachmentDef) (vo vn : Nat) :
    attachmentFlags o n vo vn = ({} : Flags).ap
      ((o.mediaType == n.mediaType) && (o.encoding == n.encoding) && (o.free == n.free))
      ((o.mediaType == n.mediaType) && (o.encoding == n.encoding) && true) false := by
  simp only [attachmentFlags, andEqual_ap, frozen_ap, ap_ap, Bool.or_false]

theorem beq_comm' {α} [BEq α] [LawfulBEq α] (a b : α) : (a == b) = (b == a) := by
  rw [Bool.eq_iff_iff]; simp only [beq_iff_eq]; exact eq_comm

/-! ### antisymmetry, kind by kind -/

theorem cmpConcept_antisymm (a b : ConceptDef) : cmpConcept b a = (cmpConcept a b).flip := by
  apply cmpGen_antisymm
  · intro v; simp only [conceptFlags_nf, ap_fields]
  · intro v _; simp only [conceptFlags_nf, ap_fields]; exact beq_comm' _ _

theorem cmpObjectType_antisymm (a b : ObjectTypeDef) : cmpObjectType b a = (cmpObjectType a b).flip := by
  apply cmpGen_antisymm
  · intro v; simp only [objectTypeFlags_nf, ap_fields]
  · intro v _; simp only [objectTypeFlags_nf, ap_fields]
    rw [beq_comm' a.free, beq_comm' a.regexHard, beq_comm' a.dataType]

theorem cmpAssoc_antisymm (va vb : Nat) (a b : AssocDef) : cmpAssoc vb va b a = (cmpAssoc va vb a b).flip := by
  apply cmpGen_antisymm
  · intro v; simp only [assocFlags_nf, ap_fields]
  · intro v _; simp only [assocFlags_nf, ap_fields]
    rw [beq_comm' a.free, beq_comm' a.property, beq_comm' a.ext]

theorem cmpRelation_antisymm (va vb : Nat) (a b : RelationDef) :
    cmpRelation vb va b a = (cmpRelation va vb a b).flip := by
  apply cmpGen_antisymm
  · intro v; simp only [relationFlags_nf, ap_fields]
  · intro v _; simp only [relationFlags_nf, ap_fields]
    rw [beq_comm' a.free, beq_comm' a.source, beq_comm' a.target, beq_comm' a.sourceConcept,
      beq_comm' a.targetConcept, beq_comm' a.type]

theorem cmpParent_antisymm (va vb : Nat) (a b : ParentDef) : cmpParent vb va b a = (cmpParent va vb a b).flip := by
  apply cmpGen_antisymm
  · intro v; simp only [parentFlags_nf, ap_fields]
  · intro v _; simp only [parentFlags_nf, ap_fields]
    rw [beq_comm' a.free, beq_comm' a.parentType, beq_comm' a.propertyMap]

theorem cmpAttachment_antisymm (va vb : Nat) (a b : AttachmentDef) :
    cmpAttachment vb va b a = (cmpAttachment va vb a b).flip := by
  apply cmpGen_antisymm
  · intro v; simp only [attachmentFlags_nf, ap_fields]
  · intro v _; simp only [attachmentFlags_nf, ap_fields]
    rw [beq_comm' a.free, beq_comm' a.mediaType, beq_comm' a.encoding]

/-- Keys of the sub-elements of a property are unique (a Python dict). -/
def PropWF (p : PropDef) : Prop := (p.assocs.map (·.concept)).Nodup

theorem propFlags_nf (o n : PropDef) (vo vn : Nat) :
    propFlags o n vo vn = ({} : Flags).ap
      ((o.objectType == n.objectType) && (o.merge == n.merge) && (o.multivalued == n.multivalued) &&
        (o.optional == n.optional) && keysEq (o.assocs.map (·.concept)) (n.assocs.map (·.concept)) &&
        ((common (·.concept) o.assocs n.assocs).map fun p => cmpAssoc vo vn p.1 p.2).all okEq &&
        (o.free == n.free))
      ((o.objectType == n.objectType) && (o.merge == n.merge) &&
        ((o.multivalued == n.multivalued) || n.multivalued) && ((o.optional == n.optional) || n.optional) &&
        (keysEq (o.assocs.map (·.concept)) (n.assocs.map (·.concept)) ||
          (vo != vn && keysSubset (o.assocs.map (·.concept)) (n.assocs.map (·.concept)))) &&
        ((common (·.concept) o.assocs n.assocs).map fun p => cmpAssoc vo vn p.1 p.2).all (· != .gt) && true)
      (((common (·.concept) o.assocs n.assocs).map fun p => cmpAssoc vo vn p.1 p.2).any (· == .incompat)) := by
  simp only [propFlags, andEqual_ap, frozen_ap, mono_ap, subFold_ap, ap_ap, Bool.or_false, Bool.false_or]

theorem cmpProp_antisymm (va vb : Nat) (a b : PropDef) (ha : PropWF a) (hb : PropWF b) :
    cmpProp vb va b a = (cmpProp va vb a b).flip := by
  apply cmpGen_antisymm
  · intro v
    simp only [propFlags_nf, ap_fields]
    exact (common_symm (fun x : AssocDef => x.concept) (cmpAssoc v v) (cmpAssoc v v) a.assocs b.assocs ha hb
      (fun o _ x _ => cmpAssoc_antisymm v v o x)).1
  · intro v _
    simp only [propFlags_nf, ap_fields]
    rw [(common_symm (fun x : AssocDef => x.concept) (cmpAssoc v v) (cmpAssoc v v) a.assocs b.assocs ha hb
      (fun o _ x _ => cmpAssoc_antisymm v v o x)).2,
      beq_comm' a.free, beq_comm' a.objectType, beq_comm' a.merge, beq_comm' a.multivalued,
      beq_comm' a.optional, keysEq_comm]

/-- Keys of the sub-elements of an event type are unique. -/
structure EtWF (e : EventTypeDef) : Prop where
  props : (e.props.map (·.name)).Nodup
  relations : (e.relations.map (·.id)).Nodup
  attachments : (e.attachments.map (·.name)).Nodup
  propWF : ∀ p ∈ e.props, PropWF p

def parentE (vo vn : Nat) : Option ParentDef → Option ParentDef → Bool
  | none, none => true
  | some po, some pn => okEq (cmpParent vo vn po pn)
  | _, _ => false
def parentV (vo vn : Nat) : Option ParentDef → Option ParentDef → Bool
  | some _, none => false
  | some po, some pn => cmpParent vo vn po pn != .gt
  | _, _ => true
def parentR (vo vn : Nat) : Option ParentDef → Option ParentDef → Bool
  | some po, some pn => cmpParent vo vn po pn == .incompat
  | _, _ => false

theorem parentStep_ap (vo vn : Nat) (o n : Option ParentDef) (f : Flags) :
    parentStep vo vn o n f = f.ap (parentE vo vn o n) (parentV vo vn o n) (parentR vo vn o n) := by
  cases o <;> cases n <;> simp only [parentStep, parentE, parentV, parentR, sub_ap] <;>
    (cases f; simp [Flags.ap])

theorem propKeyStep_ap (o n : EventTypeDef) (f : Flags) :
    propKeyStep o n f = f.ap (keysEq (o.props.map (·.name)) (n.props.map (·.name)))
      (keysEq (o.props.map (·.name)) (n.props.map (·.name)) ||
        (keysSubset (o.props.map (·.name)) (n.props.map (·.name)) &&
          (n.props.filter fun p => !(o.props.map (·.name)).contains p.name).all (·.optional) &&
          ((n.props.filter fun p => !(o.props.map (·.name)).contains p.name).isEmpty || !o.timeless ||
            n.timeless))) false := by
  unfold propKeyStep
  simp only
  by_cases h : keysEq (o.props.map (·.name)) (n.props.map (·.name)) = true
  · rw [if_pos h]; cases f; simp [Flags.ap, h]
  · rw [if_neg h]
    have h' : keysEq (o.props.map (·.name)) (n.props.map (·.name)) = false := by simpa using h
    cases f; simp [Flags.ap, h']

theorem eventTypeFlags_nf (o n : EventTypeDef) (vo vn : Nat) :
    ∃ V, eventTypeFlags o n vo vn = ({} : Flags).ap
      ((o.free == n.free) && (o.versionProp == n.versionProp) && (o.seqProp == n.seqProp) &&
        (o.tsStart == n.tsStart) && (o.tsEnd == n.tsEnd) && parentE vo vn o.parent n.parent &&
        keysEq (o.props.map (·.name)) (n.props.map (·.name)) &&
        ((common (·.name) o.props n.props).map fun p => cmpProp vo vn p.1 p.2).all okEq &&
        keysEq (o.relations.map (·.id)) (n.relations.map (·.id)) &&
        ((common (·.id) o.relations n.relations).map fun p => cmpRelation vo vn p.1 p.2).all okEq &&
        keysEq (o.attachments.map (·.name)) (n.attachments.map (·.name)) &&
        ((common (·.name) o.attachments n.attachments).map fun p => cmpAttachment vo vn p.1 p.2).all okEq)
      V
      (parentR vo vn o.parent n.parent ||
        ((common (·.name) o.props n.props).map fun p => cmpProp vo vn p.1 p.2).any (· == .incompat) ||
        ((common (·.id) o.relations n.relations).map fun p => cmpRelation vo vn p.1 p.2).any (· == .incompat) ||
        ((common (·.name) o.attachments n.attachments).map fun p => cmpAttachment vo vn p.1 p.2).any (· == .incompat)) := by
  unfold eventTypeFlags subElementFlags
  simp only [andEqual_ap, frozen_ap, parentStep_ap, propKeyStep_ap, subFold_ap, mono_ap, ap_ap, Bool.or_false,
    Bool.false_or, Bool.or_assoc]
  exact ⟨_, rfl⟩

theorem parentE_symm (v : Nat) (a b : Option ParentDef) : parentE v v a b = parentE v v b a := by
  cases a <;> cases b <;> simp only [parentE]
  rw [cmpParent_antisymm, okEq_flip]

theorem parentR_symm (v : Nat) (a b : Option ParentDef) : parentR v v a b = parentR v v b a := by
  cases a <;> cases b <;> simp only [parentR]
  rw [cmpParent_antisymm, incompat_flip]

theorem cmpEventType_antisymm (a b : EventTypeDef) (ha : EtWF a) (hb : EtWF b) :
    cmpEventType b a = (cmpEventType a b).flip := by
  apply cmpGen_antisymm
  · intro v
    obtain ⟨V1, h1⟩ := eventTypeFlags_nf a b v v
    obtain ⟨V2, h2⟩ := eventTypeFlags_nf b a v v
    rw [h1, h2]
    simp only [ap_fields]
    rw [parentR_symm,
      (common_symm (fun x : PropDef => x.name) (cmpProp v v) (cmpProp v v) a.props b.props ha.props hb.props
        (fun o ho x hx => cmpProp_antisymm v v o x (ha.propWF o ho) (hb.propWF x hx))).1,
      (common_symm (fun x : RelationDef => x.id) (cmpRelation v v) (cmpRelation v v) a.relations b.relations ha.relations hb.relations
        (fun o _ x _ => cmpRelation_antisymm v v o x)).1,
      (common_symm (fun x : AttachmentDef => x.name) (cmpAttachment v v) (cmpAttachment v v) a.attachments b.attachments ha.attachments
        hb.attachments (fun o _ x _ => cmpAttachment_antisymm v v o x)).1]
  · intro v _
    obtain ⟨V1, h1⟩ := eventTypeFlags_nf a b v v
    obtain ⟨V2, h2⟩ := eventTypeFlags_nf b a v v
    rw [h1, h2]
    simp only [ap_fields]
    rw [parentE_symm,
      (common_symm (fun x : PropDef => x.name) (cmpProp v v) (cmpProp v v) a.props b.props ha.props hb.props
        (fun o ho x hx => cmpProp_antisymm v v o x (ha.propWF o ho) (hb.propWF x hx))).2,
      (common_symm (fun x : RelationDef => x.id) (cmpRelation v v) (cmpRelation v v) a.relations b.relations ha.relations hb.relations
        (fun o _ x _ => cmpRelation_antisymm v v o x)).2,
      (common_symm (fun x : AttachmentDef => x.name) (cmpAttachment v v) (cmpAttachment v v) a.attachments b.attachments ha.attachments
        hb.attachments (fun o _ x _ => cmpAttachment_antisymm v v o x)).2,
      beq_comm' a.free, beq_comm' a.versionProp, beq_comm' a.seqProp, beq_comm' a.tsStart, beq_comm' a.tsEnd,
      keysEq_comm (a.props.map (·.name)), keysEq_comm (a.relations.map (·.id)),
      keysEq_comm (a.attachments.map (·.name))]

/-- **Antisymmetry** (`cmp b a` is the flip of `cmp a b`) for every kind of ontology element: `a`
is older than `b` exactly when `b` is newer than `a`, equality is symmetric, and an incompatible
pair is rejected from both sides. -/
theorem cmp_antisymm_all_kinds :
    (∀ a b : ConceptDef, cmpConcept b a = (cmpConcept a b).flip) ∧
    (∀ a b : SourceDef, cmpSource b a = (cmpSource a b).flip) ∧
    (∀ a b : ObjectTypeDef, cmpObjectType b a = (cmpObjectType a b).flip) ∧
    (∀ va vb (a b : AssocDef), cmpAssoc vb va b a = (cmpAssoc va vb a b).flip) ∧
    (∀ va vb (a b : RelationDef), cmpRelation vb va b a = (cmpRelation va vb a b).flip) ∧
    (∀ va vb (a b : ParentDef), cmpParent vb va b a = (cmpParent va vb a b).flip) ∧
    (∀ va vb (a b : AttachmentDef), cmpAttachment vb va b a = (cmpAttachment va vb a b).flip) ∧
    (∀ va vb (a b : PropDef), PropWF a → PropWF b → cmpProp vb va b a = (cmpProp va vb a b).flip) ∧
    (∀ a b : EventTypeDef, EtWF a → EtWF b → cmpEventType b a = (cmpEventType a b).flip) :=
  ⟨cmpConcept_antisymm, cmpConcept_antisymm, cmpObjectType_antisymm, cmpAssoc_antisymm, cmpRelation_antisymm,
   cmpParent_antisymm, cmpAttachment_antisymm, cmpProp_antisymm, cmpEventType_antisymm⟩

/-- The generic statement behind it. -/
theorem cmp_antisymm (flags : α → α → Nat → Nat → Flags) (a b : α) (va vb : Nat)
    (hr : ∀ v, (flags a b v v).raised = (flags b a v v).raised)
    (he : ∀ v, (flags a b v v).raised = false → (flags a b v v).equal = (flags b a v v).equal) :
    cmpGen vb va flags b a = (cmpGen va vb flags a b).flip := cmpGen_antisymm flags a b va vb hr he


/-! ### reflexivity -/

theorem nodup_key_inj {α} (key : α → String) : ∀ (l : List α), (l.map key).Nodup → ∀ a ∈ l, ∀ b ∈ l, key a = key b → a = b
  | [], _, a, ha, _, _, _ => by cases ha
  | x :: xs, hn, a, ha, b, hb, hab => by
    simp only [List.map_cons, List.nodup_cons, List.mem_map, not_exists, not_and] at hn
    rcases List.mem_cons.mp ha with h1 | h1 <;> rcases List.mem_cons.mp hb with h2 | h2
    · rw [h1, h2]
    · rw [h1] at hab; exact absurd hab.symm (hn.1 b h2)
    · rw [h2] at hab; exact absurd hab (hn.1 a h1)
    · exact nodup_key_inj key xs hn.2 a h1 b h2 hab

theorem common_self {α} (key : α → String) (l : List α) (hn : (l.map key).Nodup) (o a : α)
    (h : (o, a) ∈ common key l l) : o = a := by
  have := (mem_common key l l hn o a).mp h
  exact nodup_key_inj key l hn o this.1 a this.2.1 this.2.2

theorem keysEq_self (l : List String) : keysEq l l = true := by
  simp [keysEq, keysSubset]

theorem cmpConcept_refl (a : ConceptDef) : cmpConcept a a = .eq := by
  apply cmpGen_refl <;> simp [conceptFlags_nf, ap_fields]
theorem cmpObjectType_refl (a : ObjectTypeDef) : cmpObjectType a a = .eq := by
  apply cmpGen_refl <;> simp [objectTypeFlags_nf, ap_fields]
theorem cmpAssoc_refl (v : Nat) (a : AssocDef) : cmpAssoc v v a a = .eq := by
  apply cmpGen_refl <;> simp [assocFlags_nf, ap_fields]
theorem cmpRelation_refl (v : Nat) (a : RelationDef) : cmpRelation v v a a = .eq := by
  apply cmpGen_refl <;> simp [relationFlags_nf, ap_fields]
theorem cmpParent_refl (v : Nat) (a : ParentDef) : cmpParent v v a a = .eq := by
  apply cmpGen_refl <;> simp [parentFlags_nf, ap_fields]
theorem cmpAttachment_refl (v : Nat) (a : AttachmentDef) : cmpAttachment v v a a = .eq := by
  apply cmpGen_refl <;> simp [attachmentFlags_nf, ap_fields]

theorem common_all_eq {α} (key : α → String) (cmp : α → α → Cmp) (l : List α) (hn : (l.map key).Nodup)
    (hrefl : ∀ a ∈ l, cmp a a = .eq) :
    ((common key l l).map fun p => cmp p.1 p.2).all okEq = true ∧
    ((common key l l).map fun p => cmp p.1 p.2).any (· == .incompat) = false := by
  constructor
  · simp only [List.all_eq_true, List.mem_map, Prod.exists]
    rintro c ⟨o, a, hm, rfl⟩
    have := common_self key l hn o a hm
    subst this
    rw [hrefl o ((mem_common key l l hn o o).mp hm).1]; rfl
  · rw [Bool.eq_false_iff]
    simp only [ne_eq, List.any_eq_true, List.mem_map, Prod.exists, not_exists, not_and]
    rintro c ⟨o, a, hm, rfl⟩
    have := common_self key l hn o a hm
    subst this
    rw [hrefl o ((mem_common key l l hn o o).mp hm).1]; decide

theorem cmpProp_refl (v : Nat) (a : PropDef) (ha : PropWF a) : cmpProp v v a a = .eq := by
  have c := common_all_eq (fun x : AssocDef => x.concept) (cmpAssoc v v) a.assocs ha (fun x _ => cmpAssoc_refl v x)
  apply cmpGen_refl
  · simp only [propFlags_nf, ap_fields]; exact c.2
  · simp only [propFlags_nf, ap_fields]; rw [c.1]; simp [keysEq_self]

theorem cmpEventType_refl (a : EventTypeDef) (ha : EtWF a) : cmpEventType a a = .eq := by
  have cp := common_all_eq (fun x : PropDef => x.name) (cmpProp a.version a.version) a.props ha.props
    (fun x hx => cmpProp_refl _ x (ha.propWF x hx))
  have cr := common_all_eq (fun x : RelationDef => x.id) (cmpRelation a.version a.version) a.relations ha.relations
    (fun x _ => cmpRelation_refl _ x)
  have ca := common_all_eq (fun x : AttachmentDef => x.name) (cmpAttachment a.version a.version) a.attachments
    ha.attachments (fun x _ => cmpAttachment_refl _ x)
  have pe : parentE a.version a.version a.parent a.parent = true := by
    cases a.parent <;> simp [parentE, cmpParent_refl, okEq]
  have pr : parentR a.version a.version a.parent a.parent = false := by
    cases h : a.parent with
    | none => rfl
    | some p => simp only [parentR, cmpParent_refl]; decide
  obtain ⟨V, h⟩ := eventTypeFlags_nf a a a.version a.version
  apply cmpGen_refl
  · rw [h]; simp only [ap_fields]; rw [pr, cp.2, cr.2, ca.2]; rfl
  · rw [h]; simp only [ap_fields]; rw [pe, cp.1, cr.1, ca.1]; simp [keysEq_self]

/-- **Reflexivity**: every definition equals itself, for every element kind. -/
theorem cmp_refl :
    (∀ a : ConceptDef, cmpConcept a a = .eq) ∧ (∀ a : ObjectTypeDef, cmpObjectType a a = .eq) ∧
    (∀ v (a : AssocDef), cmpAssoc v v a a = .eq) ∧ (∀ v (a : RelationDef), cmpRelation v v a a = .eq) ∧
    (∀ v (a : ParentDef), cmpParent v v a a = .eq) ∧ (∀ v (a : AttachmentDef), cmpAttachment v v a a = .eq) ∧
    (∀ v (a : PropDef), PropWF a → cmpProp v v a a = .eq) ∧
    (∀ a : EventTypeDef, EtWF a → cmpEventType a a = .eq) :=
  ⟨cmpConcept_refl, cmpObjectType_refl, cmpAssoc_refl, cmpRelation_refl, cmpParent_refl, cmpAttachment_refl,
   cmpProp_refl, cmpEventType_refl⟩

/-! ### definitions that compare equal are the same definition -/

theorem concept_eq_same (a b : ConceptDef) (hn : a.name = b.name) (h : cmpConcept a b = .eq) : a = b := by
  obtain ⟨hv, _, he⟩ := (cmpGen_eq_iff _ a b _ _).mp h
  simp only [conceptFlags_nf, ap_fields, beq_iff_eq] at he
  cases a; cases b; simp_all

theorem objectType_eq_same (a b : ObjectTypeDef) (hn : a.name = b.name) (h : cmpObjectType a b = .eq) : a = b := by
  obtain ⟨hv, _, he⟩ := (cmpGen_eq_iff _ a b _ _).mp h
  simp only [objectTypeFlags_nf, ap_fields, Bool.and_eq_true, beq_iff_eq] at he
  cases a; cases b; simp_all

theorem assoc_eq_same (va vb : Nat) (a b : AssocDef) (hn : a.concept = b.concept) (h : cmpAssoc va vb a b = .eq) :
    a = b := by
  obtain ⟨hv, _, he⟩ := (cmpGen_eq_iff _ a b _ _).mp h
  simp only [assocFlags_nf, ap_fields, Bool.and_eq_true, beq_iff_eq] at he
  cases a; cases b; simp_all

theorem relation_eq_same (va vb : Nat) (a b : RelationDef) (hn : a.id = b.id) (h : cmpRelation va vb a b = .eq) :
    a = b := by
  obtain ⟨hv, _, he⟩ := (cmpGen_eq_iff _ a b _ _).mp h
  simp only [relationFlags_nf, ap_fields, Bool.and_eq_true, beq_iff_eq] at he
  cases a; cases b; simp_all

theorem parent_eq_same (va vb : Nat) (a b : ParentDef) (h : cmpParent va vb a b = .eq) : a = b := by
  obtain ⟨hv, _, he⟩ := (cmpGen_eq_iff _ a b _ _).mp h
  simp only [parentFlags_nf, ap_fields, Bool.and_eq_true, beq_iff_eq] at he
  cases a; cases b; simp_all

theorem attachment_eq_same (va vb : Nat) (a b : AttachmentDef) (hn : a.name = b.name)
    (h : cmpAttachment va vb a b = .eq) : a = b := by
  obtain ⟨hv, _, he⟩ := (cmpGen_eq_iff _ a b _ _).mp h
  simp only [attachmentFlags_nf, ap_fields, Bool.and_eq_true, beq_iff_eq] at he
  cases a; cases b; simp_all

theorem keysSubset_mem {a b : List String} (h : keysSubset a b = true) (x : String) (hx : x ∈ a) : x ∈ b := by
  simp only [keysSubset, List.all_eq_true, List.contains_iff_mem] at h
  exact h x hx

/-- When all common pairs are equal and the key sets coincide, both lists hold the same definitions. -/
theorem same_members {α} (key : α → String) (cmp : α → α → Cmp) (old new : List α)
    (ho : (old.map key).Nodup) (hn : (new.map key).Nodup)
    (hk : keysEq (old.map key) (new.map key) = true)
    (hall : ((common key old new).map fun p => cmp p.1 p.2).all okEq = true)
    (hr : ((common key old new).map fun p => cmp p.1 p.2).any (· == .incompat) = false)
    (hsame : ∀ o ∈ old, ∀ a ∈ new, key o = key a → cmp o a = .eq → o = a) :
    ∀ x, x ∈ old ↔ x ∈ new := by
  simp only [keysEq, Bool.and_eq_true] at hk
  have pair_eq : ∀ o a, (o, a) ∈ common key old new → o = a := by
    intro o a hm
    have m := (mem_common key old new ho o a).mp hm
    have h1 : okEq (cmp o a) = true := by
      simp only [List.all_eq_true, List.mem_map, Prod.exists] at hall
      exact hall _ ⟨o, a, hm, rfl⟩
    have h2 : ¬ (cmp o a == Cmp.incompat) = true := by
      rw [Bool.eq_false_iff] at hr
      simp only [ne_eq, List.any_eq_true, List.mem_map, Prod.exists, not_exists, not_and] at hr
      exact hr _ ⟨o, a, hm, rfl⟩
    have : cmp o a = .eq := by
      cases hc : cmp o a <;> rw [hc] at h1 h2 <;> simp_all [okEq]
    exact hsame o m.1 a m.2.1 m.2.2 this
  intro x
  constructor
  · intro hx
    have : key x ∈ new.map key := keysSubset_mem hk.1 _ (List.mem_map_of_mem hx)
    obtain ⟨a, ha, hka⟩ := List.mem_map.mp this
    have hm := (mem_common key old new ho x a).mpr ⟨hx, ha, hka.symm⟩
    rw [pair_eq x a hm]; exact ha
  · intro hx
    have : key x ∈ old.map key := keysSubset_mem hk.2 _ (List.mem_map_of_mem hx)
    obtain ⟨o, ho', hko⟩ := List.mem_map.mp this
    have hm := (mem_common key old new ho o x).mpr ⟨ho', hx, hko⟩
    rw [← pair_eq o x hm]; exact ho'

/-- Properties that compare equal have the same attributes and the same concept associations. -/
theorem prop_eq_same (va vb : Nat) (a b : PropDef) (ha : PropWF a) (hb : PropWF b) (h : cmpProp va vb a b = .eq) :
    a.objectType = b.objectType ∧ a.merge = b.merge ∧ a.multivalued = b.multivalued ∧
    a.optional = b.optional ∧ a.free = b.free ∧ ∀ x, x ∈ a.assocs ↔ x ∈ b.assocs := by
  obtain ⟨hv, hr, he⟩ := (cmpGen_eq_iff _ a b _ _).mp h
  subst hv
  simp only [propFlags_nf, ap_fields, Bool.and_eq_true, beq_iff_eq] at he hr
  obtain ⟨⟨⟨⟨⟨⟨h1, h2⟩, h3⟩, h4⟩, h5⟩, h6⟩, h7⟩ := he
  have hm := same_members (fun x : AssocDef => x.concept) (cmpAssoc va va) b.assocs a.assocs hb ha h5 h6 hr
    (fun o _ x _ hk hc => assoc_eq_same va va o x hk hc)
  exact ⟨h1.symm, h2.symm, h3.symm, h4.symm, h7.symm, fun x => (hm x).symm⟩

/-- **Equal means the same definition**, for every element kind: definitions that compare equal
have the same version, the same attributes and the same sub-element definitions, hence serialize
identically (the serialisation is a function of exactly these). -/
theorem eq_same_definition_all_kinds :
    (∀ a b : ConceptDef, a.name = b.name → cmpConcept a b = .eq → a = b) ∧
    (∀ a b : ObjectTypeDef, a.name = b.name → cmpObjectType a b = .eq → a = b) ∧
    (∀ va vb (a b : AssocDef), a.concept = b.concept → cmpAssoc va vb a b = .eq → a = b) ∧
    (∀ va vb (a b : RelationDef), a.id = b.id → cmpRelation va vb a b = .eq → a = b) ∧
    (∀ va vb (a b : ParentDef), cmpParent va vb a b = .eq → a = b) ∧
    (∀ va vb (a b : AttachmentDef), a.name = b.name → cmpAttachment va vb a b = .eq → a = b) ∧
    (∀ va vb (a b : PropDef), PropWF a → PropWF b → cmpProp va vb a b = .eq →
      a.objectType = b.objectType ∧ a.merge = b.merge ∧ a.multivalued = b.multivalued ∧
      a.optional = b.optional ∧ a.free = b.free ∧ ∀ x, x ∈ a.assocs ↔ x ∈ b.assocs) :=
  ⟨concept_eq_same, objectType_eq_same, assoc_eq_same, relation_eq_same, parent_eq_same, attachment_eq_same,
   prop_eq_same⟩


/-! ### whole ontologies (`Ontology.__cmp__`) -/

open EdxmlProps.OntCmp in
/-- an ontology as `Ontology` objects hold it: one definition per name, event types well-formed -/
structure OntWF (A : OntologyDef) : Prop where
  ot : (A.objectTypes.map (·.name)).Nodup
  c : (A.concepts.map (·.name)).Nodup
  et : (A.eventTypes.map (·.name)).Nodup
  s : (A.sources.map (·.name)).Nodup
  etwf : ∀ e ∈ A.eventTypes, EtWF e

/-- **C09 for whole ontologies: equality is symmetric and an incompatible pair is rejected from both
sides**: `A == B` and `B == A` give the same answer (equal, different, or the error), whatever the
two ontologies hold -/
theorem ontEq_symm (A B : OntologyDef) (hA : OntWF A) (hB : OntWF B) : ontEq A B = ontEq B A := by
  unfold ontEq
  rw [EdxmlProps.OntCmp.listsEq_symm (·.name) cmpObjectType A.objectTypes B.objectTypes hA.ot hB.ot
        (fun a _ b _ => cmpObjectType_antisymm b a),
      EdxmlProps.OntCmp.listsEq_symm (·.name) cmpConcept A.concepts B.concepts hA.c hB.c
        (fun a _ b _ => cmpConcept_antisymm b a),
      EdxmlProps.OntCmp.listsEq_symm (·.name) cmpEventType A.eventTypes B.eventTypes hA.et hB.et
        (fun a ha b hb => cmpEventType_antisymm b a (hB.etwf b hb) (hA.etwf a ha)),
      EdxmlProps.OntCmp.listsEq_symm (·.name) cmpSource A.sources B.sources hA.s hB.s
        (fun a _ b _ => cmpConcept_antisymm b a)]

theorem listsEq_refl {α} (key : α → String) (cmp : α → α → Cmp) (A : List α) (hA : (A.map key).Nodup)
    (hrefl : ∀ a ∈ A, cmp a a = .eq) : listsEq key cmp A A = .equal := by
  apply (EdxmlProps.OntCmp.listsEq_spec key cmp A A hA).2.mpr
  refine ⟨?_, keysEq_self _, ?_⟩
  · rintro ⟨a, ha, b, hb, hk, hc⟩
    have := nodup_key_inj key A hA b hb a ha hk
    subst this
    rw [hrefl b hb] at hc
    cases hc
  · intro a ha b hb hk
    have := nodup_key_inj key A hA b hb a ha hk
    subst this
    exact hrefl b hb

/-- every ontology equals itself -/
theorem ontEq_refl (A : OntologyDef) (hA : OntWF A) : ontEq A A = .equal := by
  unfold ontEq
  rw [listsEq_refl (·.name) cmpObjectType _ hA.ot (fun a _ => cmpObjectType_refl a),
      listsEq_refl (·.name) cmpConcept _ hA.c (fun a _ => cmpConcept_refl a),
      listsEq_refl (·.name) cmpEventType _ hA.et (fun a ha => cmpEventType_refl a (hA.etwf a ha)),
      listsEq_refl (·.name) cmpSource _ hA.s (fun a _ => cmpConcept_refl a)]
  rfl

/-- `and` of the four kinds is equal only when all four are -/
theorem and_equal (x y : OntEq) : x.and y = .equal ↔ x = .equal ∧ y = .equal := by
  cases x <;> cases y <;> simp [OntEq.and]

/-- ontologies that compare equal hold the same object types, concepts and sources (hence serialize
these identically: the serialisation lists the definitions sorted by name) -/
theorem ontEq_equal_same (A B : OntologyDef) (hA : OntWF A) (hB : OntWF B) (h : ontEq A B = .equal) :
    (∀ a, a ∈ A.objectTypes ↔ a ∈ B.objectTypes) ∧ (∀ a, a ∈ A.concepts ↔ a ∈ B.concepts) ∧
    (∀ a, a ∈ A.sources ↔ a ∈ B.sources) := by
  unfold ontEq at h
  obtain ⟨h123, h4⟩ := (and_equal _ _).mp h
  obtain ⟨h12, _⟩ := (and_equal _ _).mp h123
  obtain ⟨h1, h2⟩ := (and_equal _ _).mp h12
  have key : ∀ {α} (key : α → String) (cmp : α → α → Cmp) (X Y : List α) (_ : (X.map key).Nodup) (hY : (Y.map key).Nodup)
      (_ : ∀ a b : α, key a = key b → cmp a b = .eq → a = b) (_ : ∀ a b : α, cmp b a = (cmp a b).flip),
      listsEq key cmp X Y = .equal → ∀ a, a ∈ X ↔ a ∈ Y := by
    intro α key cmp X Y _ hY hsame hflip heq a
    obtain ⟨_, hk, hall⟩ := (EdxmlProps.OntCmp.listsEq_spec key cmp X Y hY).2.mp heq
    unfold keysEq at hk
    simp only [Bool.and_eq_true] at hk
    constructor
    · intro ha
      have : key a ∈ Y.map key := keysSubset_mem hk.1 _ (List.mem_map_of_mem ha)
      obtain ⟨b, hb, hkb⟩ := List.mem_map.mp this
      have := hsame b a hkb (hall a ha b hb hkb)
      rw [← this]; exact hb
    · intro ha
      have : key a ∈ X.map key := keysSubset_mem hk.2 _ (List.mem_map_of_mem ha)
      obtain ⟨b, hb, hkb⟩ := List.mem_map.mp this
      have h1 := hall b hb a ha hkb.symm
      have := hsame a b hkb.symm h1
      rw [this]; exact hb
  exact ⟨key _ _ _ _ hA.ot hB.ot objectType_eq_same (fun a b => cmpObjectType_antisymm a b) h1,
    key _ _ _ _ hA.c hB.c concept_eq_same (fun a b => cmpConcept_antisymm a b) h2,
    key _ _ _ _ hA.s hB.s concept_eq_same (fun a b => cmpConcept_antisymm a b) h4⟩

/-! ### accepted upgrades compose -/

theorem isPrefixOf_trans {α} [BEq α] [LawfulBEq α] : ∀ (a b c : List α),
    a.isPrefixOf b = true → b.isPrefixOf c = true → a.isPrefixOf c = true
  | [], _, _, _, _ => by simp [List.isPrefixOf]
  | x :: a, [], _, h, _ => by simp [List.isPrefixOf] at h
  | x :: a, y :: b, [], _, h => by simp [List.isPrefixOf] at h
  | x :: a, y :: b, z :: c, h1, h2 => by
    simp only [List.isPrefixOf, Bool.and_eq_true, beq_iff_eq] at h1 h2 ⊢
    exact ⟨h1.1.trans h2.1, isPrefixOf_trans a b c h1.2 h2.2⟩

theorem isPrefixOf_append_self {α} [BEq α] [LawfulBEq α] (a b : List α) : a.isPrefixOf (a ++ b) = true := by
  induction a with
  | nil => simp [List.isPrefixOf]
  | cons x a ih => simp [List.isPrefixOf, ih]

theorem regexStep_trans (a b c : Option String)
    (h1 : ((a == b) || regexUpgradeOk a b) = true) (h2 : ((b == c) || regexUpgradeOk b c) = true) :
    ((a == c) || regexUpgradeOk a c) = true := by
  simp only [Bool.or_eq_true, beq_iff_eq] at h1 h2 ⊢
  rcases h1 with rfl | h1
  · exact h2
  · rcases h2 with rfl | h2
    · exact Or.inr h1
    · right
      cases a with
      | none => simp [regexUpgradeOk] at h1
      | some x =>
        cases b with
        | none => cases c <;> simp [regexUpgradeOk] at h2
        | some y =>
          cases c with
          | none => simp [regexUpgradeOk]
          | some z =>
            simp only [regexUpgradeOk] at h1 h2 ⊢
            -- x| ⊑ y and y| ⊑ z, hence x| ⊑ y ⊑ y| ⊑ z
            have hy : y.toList.isPrefixOf (y ++ "|").toList = true := by
              simp only [String.toList_append]; exact isPrefixOf_append_self _ _
            exact isPrefixOf_trans _ _ _ h1 (isPrefixOf_trans _ _ _ hy h2)

theorem take_prefix_trans (o n m : List String) (h1 : n.take o.length = o) (h2 : m.take n.length = n)
    (hl : o.length ≤ n.length) : m.take o.length = o := by
  have : m.take o.length = (m.take n.length).take o.length := by
    rw [List.take_take]; congr 1; omega
  rw [this, h2, h1]

theorem dataTypeStep_trans (a b c : String)
    (h1 : ((a == b) || dataTypeUpgradeOk a b) = true) (h2 : ((b == c) || dataTypeUpgradeOk b c) = true) :
    ((a == c) || dataTypeUpgradeOk a c) = true := by
  simp only [Bool.or_eq_true, beq_iff_eq] at h1 h2 ⊢
  rcases h1 with rfl | h1
  · exact h2
  · rcases h2 with rfl | h2
    · exact Or.inr h1
    · right
      simp only [dataTypeUpgradeOk, Bool.and_eq_true, beq_iff_eq, decide_eq_true_eq] at h1 h2 ⊢
      obtain ⟨⟨⟨a1, a2⟩, a3⟩, a4⟩ := h1
      obtain ⟨⟨⟨b1, b2⟩, b3⟩, b4⟩ := h2
      exact ⟨⟨⟨a1, b2⟩, by omega⟩, take_prefix_trans _ _ _ a4 b4 (by omega)⟩

/-- Object types: `a → b` and `b → c` accepted upgrades give an accepted upgrade `a → c` (enum
extension and hard-regex extension compose). -/
theorem upgrade_trans_objecttype (a b c : ObjectTypeDef)
    (h1 : cmpObjectType a b = .lt) (h2 : cmpObjectType b c = .lt) : cmpObjectType a c = .lt := by
  obtain ⟨v1, _, e1⟩ := (cmpGen_lt_iff _ a b _ _).mp h1
  obtain ⟨v2, _, e2⟩ := (cmpGen_lt_iff _ b c _ _).mp h2
  apply (cmpGen_lt_iff _ a c _ _).mpr
  simp only [objectTypeFlags_nf, ap_fields, Bool.and_eq_true, Bool.true_and] at e1 e2 ⊢
  exact ⟨by omega, trivial, regexStep_trans _ _ _ e1.1 e2.1, dataTypeStep_trans _ _ _ e1.2 e2.2⟩

theorem upgrade_trans_concept (a b c : ConceptDef)
    (h1 : cmpConcept a b = .lt) (h2 : cmpConcept b c = .lt) : cmpConcept a c = .lt := by
  obtain ⟨v1, _, _⟩ := (cmpGen_lt_iff _ a b _ _).mp h1
  obtain ⟨v2, _, _⟩ := (cmpGen_lt_iff _ b c _ _).mp h2
  apply (cmpGen_lt_iff _ a c _ _).mpr
  simp only [conceptFlags_nf, ap_fields]
  exact ⟨by omega, trivial, trivial⟩

theorem upgrade_trans_assoc (va vb vc : Nat) (a b c : AssocDef)
    (h1 : cmpAssoc va vb a b = .lt) (h2 : cmpAssoc vb vc b c = .lt) : cmpAssoc va vc a c = .lt := by
  obtain ⟨v1, _, e1⟩ := (cmpGen_lt_iff _ a b _ _).mp h1
  obtain ⟨v2, _, e2⟩ := (cmpGen_lt_iff _ b c _ _).mp h2
  apply (cmpGen_lt_iff _ a c _ _).mpr
  simp only [assocFlags_nf, ap_fields, Bool.and_eq_true, beq_iff_eq, Bool.and_true] at e1 e2 ⊢
  exact ⟨by omega, trivial, e1.1.trans e2.1, e1.2.trans e2.2⟩

theorem upgrade_trans_relation (va vb vc : Nat) (a b c : RelationDef)
    (h1 : cmpRelation va vb a b = .lt) (h2 : cmpRelation vb vc b c = .lt) : cmpRelation va vc a c = .lt := by
  obtain ⟨v1, _, e1⟩ := (cmpGen_lt_iff _ a b _ _).mp h1
  obtain ⟨v2, _, e2⟩ := (cmpGen_lt_iff _ b c _ _).mp h2
  apply (cmpGen_lt_iff _ a c _ _).mpr
  simp only [relationFlags_nf, ap_fields, Bool.and_eq_true, beq_iff_eq, Bool.and_true] at e1 e2 ⊢
  obtain ⟨⟨⟨⟨a1, a2⟩, a3⟩, a4⟩, a5⟩ := e1
  obtain ⟨⟨⟨⟨b1, b2⟩, b3⟩, b4⟩, b5⟩ := e2
  exact ⟨by omega, trivial, ⟨⟨⟨⟨a1.trans b1, a2.trans b2⟩, a3.trans b3⟩, a4.trans b4⟩, a5.trans b5⟩⟩

theorem upgrade_trans_parent (va vb vc : Nat) (a b c : ParentDef)
    (h1 : cmpParent va vb a b = .lt) (h2 : cmpParent vb vc b c = .lt) : cmpParent va vc a c = .lt := by
  obtain ⟨v1, _, e1⟩ := (cmpGen_lt_iff _ a b _ _).mp h1
  obtain ⟨v2, _, e2⟩ := (cmpGen_lt_iff _ b c _ _).mp h2
  apply (cmpGen_lt_iff _ a c _ _).mpr
  simp only [parentFlags_nf, ap_fields, Bool.and_eq_true, beq_iff_eq, Bool.and_true] at e1 e2 ⊢
  exact ⟨by omega, trivial, e1.1.trans e2.1, e1.2.trans e2.2⟩

theorem upgrade_trans_attachment (va vb vc : Nat) (a b c : AttachmentDef)
    (h1 : cmpAttachment va vb a b = .lt) (h2 : cmpAttachment vb vc b c = .lt) : cmpAttachment va vc a c = .lt := by
  obtain ⟨v1, _, e1⟩ := (cmpGen_lt_iff _ a b _ _).mp h1
  obtain ⟨v2, _, e2⟩ := (cmpGen_lt_iff _ b c _ _).mp h2
  apply (cmpGen_lt_iff _ a c _ _).mpr
  simp only [attachmentFlags_nf, ap_fields, Bool.and_eq_true, beq_iff_eq, Bool.and_true] at e1 e2 ⊢
  exact ⟨by omega, trivial, e1.1.trans e2.1, e1.2.trans e2.2⟩

/-- Accepted upgrades compose, for the element kinds without sub-elements. -/
theorem upgrade_trans_flat_kinds :
    (∀ a b c : ConceptDef, cmpConcept a b = .lt → cmpConcept b c = .lt → cmpConcept a c = .lt) ∧
    (∀ va vb vc (a b c : AssocDef), cmpAssoc va vb a b = .lt → cmpAssoc vb vc b c = .lt → cmpAssoc va vc a c = .lt) ∧
    (∀ va vb vc (a b c : RelationDef), cmpRelation va vb a b = .lt → cmpRelation vb vc b c = .lt →
      cmpRelation va vc a c = .lt) ∧
    (∀ va vb vc (a b c : ParentDef), cmpParent va vb a b = .lt → cmpParent vb vc b c = .lt → cmpParent va vc a c = .lt) ∧
    (∀ va vb vc (a b c : AttachmentDef), cmpAttachment va vb a b = .lt → cmpAttachment vb vc b c = .lt →
      cmpAttachment va vc a c = .lt) :=
  ⟨upgrade_trans_concept, upgrade_trans_assoc, upgrade_trans_relation, upgrade_trans_parent, upgrade_trans_attachment⟩


theorem keysEq_subset {a b : List String} (h : keysEq a b = true) : keysSubset a b = true := by
  simp only [keysEq, Bool.and_eq_true] at h; exact h.1

theorem keysSubset_trans {a b c : List String} (h1 : keysSubset a b = true) (h2 : keysSubset b c = true) :
    keysSubset a c = true := by
  simp only [keysSubset, List.all_eq_true, List.contains_iff_mem] at *
  exact fun x hx => h2 x (h1 x hx)

theorem bool_mono_trans (x y z : Bool) (h1 : ((x == y) || y) = true) (h2 : ((y == z) || z) = true) :
    ((x == z) || z) = true := by
  cases x <;> cases y <;> cases z <;> simp_all

/-- A common pair whose comparison neither raised nor was a downgrade, across a version increase,
is an accepted upgrade. -/
theorem pair_lt {α} (key : α → String) (cmp : α → α → Cmp) (old new : List α) (ho : (old.map key).Nodup)
    (hv : ((common key old new).map fun p => cmp p.1 p.2).all (· != .gt) = true)
    (hr : ((common key old new).map fun p => cmp p.1 p.2).any (· == .incompat) = false)
    (hne : ∀ o a, cmp o a ≠ .eq) (o a : α) (h1 : o ∈ old) (h2 : a ∈ new) (hk : key o = key a) :
    cmp o a = .lt := by
  have hm := (mem_common key old new ho o a).mpr ⟨h1, h2, hk⟩
  have a1 : (cmp o a != Cmp.gt) = true := by
    simp only [List.all_eq_true, List.mem_map, Prod.exists] at hv
    exact hv _ ⟨o, a, hm, rfl⟩
  have a2 : ¬ (cmp o a == Cmp.incompat) = true := by
    rw [Bool.eq_false_iff] at hr
    simp only [ne_eq, List.any_eq_true, List.mem_map, Prod.exists, not_exists, not_and] at hr
    exact hr _ ⟨o, a, hm, rfl⟩
  have a3 := hne o a
  cases hc : cmp o a <;> rw [hc] at a1 a2 a3 <;> simp_all

theorem cmpGen_ne_eq_of_lt (flags : α → α → Nat → Nat → Flags) (a b : α) (va vb : Nat) (h : va < vb) :
    cmpGen va vb flags a b ≠ .eq := by
  intro he
  have := ((cmpGen_eq_iff flags a b va vb).mp he).1
  omega

/-- Properties: accepted upgrades compose (mandatory→optional, single→multi valued, added concept
associations, upgraded associations). -/
theorem upgrade_trans_property (va vb vc : Nat) (a b c : PropDef) (ha : PropWF a) (hb : PropWF b) (hc : PropWF c)
    (h1 : cmpProp va vb a b = .lt) (h2 : cmpProp vb vc b c = .lt) : cmpProp va vc a c = .lt := by
  obtain ⟨v1, r1, e1⟩ := (cmpGen_lt_iff _ a b _ _).mp h1
  obtain ⟨v2, r2, e2⟩ := (cmpGen_lt_iff _ b c _ _).mp h2
  apply (cmpGen_lt_iff _ a c _ _).mpr
  simp only [propFlags_nf, ap_fields, Bool.and_eq_true, beq_iff_eq, Bool.and_true] at e1 e2 r1 r2 ⊢
  obtain ⟨⟨⟨⟨⟨a1, a2⟩, a3⟩, a4⟩, a5⟩, a6⟩ := e1
  obtain ⟨⟨⟨⟨⟨b1, b2⟩, b3⟩, b4⟩, b5⟩, b6⟩ := e2
  have hne1 : va ≠ vb := by omega
  have hne2 : vb ≠ vc := by omega
  have sub1 : keysSubset (a.assocs.map (·.concept)) (b.assocs.map (·.concept)) = true := by
    simp only [Bool.or_eq_true, Bool.and_eq_true] at a5
    rcases a5 with h | h
    · exact keysEq_subset h
    · exact h.2
  have sub2 : keysSubset (b.assocs.map (·.concept)) (c.assocs.map (·.concept)) = true := by
    simp only [Bool.or_eq_true, Bool.and_eq_true] at b5
    rcases b5 with h | h
    · exact keysEq_subset h
    · exact h.2
  -- every common pair of (a, c) is an accepted upgrade, through the association in b
  have pairs : ∀ o z, (o, z) ∈ common (fun x : AssocDef => x.concept) a.assocs c.assocs →
      cmpAssoc va vc o z = .lt := by
    intro o z hm
    have m := (mem_common (fun x : AssocDef => x.concept) a.assocs c.assocs ha o z).mp hm
    have : o.concept ∈ b.assocs.map (·.concept) := keysSubset_mem sub1 _ (List.mem_map_of_mem m.1)
    obtain ⟨y, hy, hky⟩ := List.mem_map.mp this
    have l1 := pair_lt (fun x : AssocDef => x.concept) (cmpAssoc va vb) a.assocs b.assocs ha a6 r1
      (fun o a => cmpGen_ne_eq_of_lt _ _ _ _ _ v1) o y m.1 hy hky.symm
    have l2 := pair_lt (fun x : AssocDef => x.concept) (cmpAssoc vb vc) b.assocs c.assocs hb b6 r2
      (fun o a => cmpGen_ne_eq_of_lt _ _ _ _ _ v2) y z hy m.2.1 (hky.trans m.2.2)
    exact upgrade_trans_assoc va vb vc o y z l1 l2
  refine ⟨by omega, ?_, ⟨⟨⟨⟨⟨a1.trans b1, a2.trans b2⟩, ?_⟩, ?_⟩, ?_⟩, ?_⟩⟩
  · rw [Bool.eq_false_iff]
    simp only [ne_eq, List.any_eq_true, List.mem_map, Prod.exists, not_exists, not_and]
    rintro cc ⟨o, z, hm, rfl⟩
    rw [pairs o z hm]; decide
  · exact bool_mono_trans _ _ _ a3 b3
  · exact bool_mono_trans _ _ _ a4 b4
  · simp only [Bool.or_eq_true, Bool.and_eq_true]
    right
    exact ⟨by simp; omega, keysSubset_trans sub1 sub2⟩
  · simp only [List.all_eq_true, List.mem_map, Prod.exists]
    rintro cc ⟨o, z, hm, rfl⟩
    rw [pairs o z hm]; decide

/-! ### Non-vacuity -/

def exA : ObjectTypeDef := { name := "o", version := 1, free := [("description", some "d")], regexHard := some "a", dataType := "enum:a:b" }
def exB : ObjectTypeDef := { exA with version := 2, regexHard := some "a|b", dataType := "enum:a:b:c" }
def exC : ObjectTypeDef := { exA with version := 3, regexHard := none, dataType := "enum:a:b:c:d" }
example : cmpObjectType exA exB = .lt ∧ cmpObjectType exB exC = .lt ∧ cmpObjectType exA exC = .lt ∧
    cmpObjectType exC exA = .gt := by decide +kernel
example : cmpObjectType exA { exA with version := 2, dataType := "enum:a:bc:d" } = .incompat := by decide +kernel
example : cmpObjectType exA { exA with free := [("description", some "other")] } = .incompat := by decide +kernel

end EdxmlProps.C09
