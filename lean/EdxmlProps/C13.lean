/-
C13. Object value normalization is idempotent, sound and value-preserving.

Model: `EdxmlModel/DataType/Normalize.lean` (`DataType.normalize_objects` and the `_normalize_*`
family) composed with the gate model of C03 (`EdxmlModel/DataType/Gate.lean`).
Proved here for the integer, decimal/currency and boolean families, base64 padding and ASCII
case folding; datetime, ip, geo and float normalization are executable in the model or judged by
the harness' oracles only (DESIGN.md, C13).
-/
import EdxmlProps.Lemmas.Numerals
import EdxmlProps.C03
import EdxmlProps.Lemmas.Calendar
import EdxmlProps.Lemmas.DigitStrings
import Mathlib.Tactic.IntervalCases
namespace EdxmlProps.C13
open Edxml Edxml.Gate Edxml.Norm

/-! ### integers -/

/-- what an in-domain input of an integer type denotes -/
def intDenotes : Native → Option Int
  | .int z => some z
  | .str s => parseInt s.toList
  | .dec neg c e => if e ≥ 0 then some (truncDec neg c e) else none
  | _ => none

/-- the normal form of an input denoting `z` is `str(z)`, which reads back as `z` -/
theorem normInt_value (x : Native) (z : Int) (h : intDenotes x = some z) :
    normInt x = .ok (String.ofList (renderInt z)) ∧ intVal (renderInt z) = z := by
  refine ⟨?_, intVal_render z⟩
  cases x with
  | int z' => simp only [intDenotes, Option.some.injEq] at h; subst h; rfl
  | str s => simp only [intDenotes] at h; simp only [normInt, h]
  | dec neg c e =>
    simp only [intDenotes] at h
    split at h
    · simp only [Option.some.injEq] at h; subst h; rfl
    · cases h
  | bool b => cases h
  | datetime => cases h
  | none => cases h

/-- the gate accepts the normal form exactly when the number is in the range of the type -/
theorem normInt_accepted_iff (kind : String) (signed : Bool) (lo hi : Int)
    (hr : intRange kind signed = some (lo, hi)) (z : Int) :
    acceptsInt kind signed (renderInt z) = true ↔ lo ≤ z ∧ z ≤ hi := by
  rw [EdxmlProps.C03.acceptsInt_iff kind signed lo hi hr]
  constructor
  · rintro ⟨z', h1, h2, he⟩
    have : z = z' := by rw [← intVal_render z, he, intVal_render]
    subst this; exact ⟨h1, h2⟩
  · rintro ⟨h1, h2⟩; exact ⟨z, h1, h2, rfl⟩

/-- the normal form is a fixed point -/
theorem normInt_idempotent (z : Int) :
    normInt (.str (String.ofList (renderInt z))) = .ok (String.ofList (renderInt z)) := by
  simp only [normInt, String.toList_ofList, parseInt_renderInt]

/-- Known finding (pinned by the SDK's test suite): a number with a fractional part is truncated
into a valid integer object instead of being rejected. -/
theorem integer_truncation_violates :
    normInt (.dec false 59 (-1)) = .ok "5" ∧ acceptsInt "tinyint" false "5".toList = true := by
  constructor <;> decide +kernel

/-! ### booleans -/

theorem normBool_sound (x : Native) (s : String) (h : normBool x = .ok s) : s = "true" ∨ s = "false" := by
  unfold normBool at h
  split at h <;> first | (simp only [Out.ok.injEq] at h; subst h; simp; done) | cases h | skip
  all_goals (rename_i b; cases b <;> simp at h <;> subst h <;> simp)

theorem normBool_accepted (x : Native) (s : String) (info : StrInfo) (h : normBool x = .ok s) :
    acceptsFam .boolean info s = true := by
  rcases normBool_sound x s h with rfl | rfl <;> rfl

theorem normBool_idempotent (x : Native) (s : String) (h : normBool x = .ok s) : normBool (.str s) = .ok s := by
  rcases normBool_sound x s h with rfl | rfl <;> rfl

/-- everything but the eight spellings of a truth value is rejected (never turned into `false`) -/
theorem normBool_str_rejects (s : String) (h : s ≠ "true" ∧ s ≠ "True" ∧ s ≠ "false" ∧ s ≠ "False") :
    normBool (.str s) = .reject := by
  obtain ⟨h1, h2, h3, h4⟩ := h
  unfold normBool
  split <;> simp_all

/-! ### decimals and currency -/

/-- in-domain decimal: no more fractional digits than the type has; `m` is the value scaled by
`10^frac` -/
theorem scaleDec_exact (frac coeff : Nat) (exp : Int) (h : -(frac : Int) ≤ exp) :
    scaleDec frac coeff exp = coeff * 10 ^ (exp + frac).toNat := by
  unfold scaleDec
  simp only [ge_iff_le]
  rw [if_pos (by omega)]

/-- the gate accepts the normal form iff the sign is allowed and the digits fit -/
theorem normDecimal_accepted_iff (T F : Nat) (signed neg : Bool) (coeff : Nat) (exp : Int) :
    ∃ out, normDecimalOf F neg coeff exp = .ok out ∧
      (acceptsDecimal T F signed out.toList = true ↔
        ((neg = true ∧ scaleDec F coeff exp ≠ 0) → signed = true) ∧
        totalDigits (renderNat (scaleDec F coeff exp / 10 ^ F)) (fracDigits F (scaleDec F coeff exp)) ≤ T) :=
  ⟨_, rfl, by rw [String.toList_ofList]; exact renderScaled_accepted_iff T F signed neg _⟩

/-- the normal form reads back as the same number: sign (zero is unsigned), magnitude scaled by
`10^frac`, scale `-frac` -/
theorem normDecimal_value (F : Nat) (neg : Bool) (coeff : Nat) (exp : Int) (h : -(F : Int) ≤ exp) :
    ∃ out, normDecimalOf F neg coeff exp = .ok out ∧
      parseDec out.toList = some (neg && coeff * 10 ^ (exp + F).toNat != 0, coeff * 10 ^ (exp + F).toNat, -(F : Int)) := by
  refine ⟨_, rfl, ?_⟩
  rw [String.toList_ofList, parseDec_renderScaled, scaleDec_exact F coeff exp h]

theorem scaleDec_self (F n : Nat) : scaleDec F n (-(F : Int)) = n := by
  rw [scaleDec_exact F n _ (by omega)]
  have : (-(F : Int) + F).toNat = 0 := by omega
  rw [this]; simp

theorem renderScaled_sign_idem (F : Nat) (neg : Bool) (n : Nat) :
    renderScaled F (neg && n != 0) n = renderScaled F neg n := by
  unfold renderScaled
  simp only [Bool.and_assoc, Bool.and_self]

/-- the normal form is a fixed point -/
theorem normDecimal_idempotent (F : Nat) (neg : Bool) (coeff : Nat) (exp : Int) :
    ∃ out, normDecimalOf F neg coeff exp = .ok out ∧ normDecimal F (.str out) = .ok out := by
  refine ⟨_, rfl, ?_⟩
  simp only [normDecimal, String.toList_ofList, parseDec_renderScaled, normDecimalOf, scaleDec_self,
    renderScaled_sign_idem]

/-- negative zero, and everything that rounds to zero, is written without a sign -/
theorem normDecimal_zero_unsigned (F : Nat) (neg : Bool) :
    renderScaled F neg 0 = renderScaled F false 0 := by
  unfold renderScaled; simp

/-! ### base64 padding, ASCII case folding -/

theorem normBase64_length (s o : String) (h : normBase64 (.str s) = .ok o) : o.length % 4 = 0 := by
  unfold normBase64 at h
  simp only at h
  split at h
  · cases h
  · split at h
    · split at h
      · cases h
      · split at h
        · simp only [Out.ok.injEq] at h
          subst h
          simp only [String.length_ofList, List.length_append, List.length_replicate]
          have : s.toList.length = s.length := String.length_toList
          omega
        · cases h
    · cases h

theorem asciiLower_idempotent (c : Char) : asciiLower (asciiLower c) = asciiLower c := by
  by_cases h : ('A' ≤ c && c ≤ 'Z') = true
  · have hc : 65 ≤ c.toNat ∧ c.toNat ≤ 90 := by
      simp only [Bool.and_eq_true, decide_eq_true_eq, charLe_iff] at h; exact h
    have e : c = Char.ofNat c.toNat := (Char.ofNat_toNat c).symm
    generalize c.toNat = n at hc e
    obtain ⟨h1, h2⟩ := hc
    subst e
    interval_cases n <;> decide
  · have : asciiLower c = c := by unfold asciiLower; rw [if_neg h]
    rw [this, this]

theorem asciiUpper_idempotent (c : Char) : asciiUpper (asciiUpper c) = asciiUpper c := by
  by_cases h : ('a' ≤ c && c ≤ 'z') = true
  · have hc : 97 ≤ c.toNat ∧ c.toNat ≤ 122 := by
      simp only [Bool.and_eq_true, decide_eq_true_eq, charLe_iff] at h; exact h
    have e : c = Char.ofNat c.toNat := (Char.ofNat_toNat c).symm
    generalize c.toNat = n at hc e
    obtain ⟨h1, h2⟩ := hc
    subst e
    interval_cases n <;> decide
  · have : asciiUpper c = c := by unfold asciiUpper; rw [if_neg h]
    rw [this, this]

theorem asciiLower_ascii (c : Char) (h : c.toNat < 128) : (asciiLower c).toNat < 128 := by
  by_cases hu : ('A' ≤ c && c ≤ 'Z') = true
  · have hc : 65 ≤ c.toNat ∧ c.toNat ≤ 90 := by
      simp only [Bool.and_eq_true, decide_eq_true_eq, charLe_iff] at hu; exact hu
    have e : c = Char.ofNat c.toNat := (Char.ofNat_toNat c).symm
    generalize c.toNat = n at hc e
    obtain ⟨h1, h2⟩ := hc
    subst e
    interval_cases n <;> decide
  · have : asciiLower c = c := by unfold asciiLower; rw [if_neg hu]
    rw [this]; exact h

/-- lower-casing a hex value twice is lower-casing it once -/
theorem normHex_idempotent (s o : String) (h : normHex (.str s) = .ok o) : normHex (.str o) = .ok o := by
  unfold normHex at h
  simp only at h
  split at h
  · rename_i ha
    simp only [Out.ok.injEq] at h
    subst h
    have hasc : isAscii (String.ofList (s.toList.map asciiLower)) = true := by
      unfold isAscii at ha ⊢
      simp only [String.toList_ofList, List.all_map, List.all_eq_true, Function.comp_apply, decide_eq_true_eq] at ha ⊢
      exact fun c hc => asciiLower_ascii c (ha c hc)
    simp only [normHex, hasc, if_true, String.toList_ofList, List.map_map]
    congr 2
    apply List.map_congr_left
    intro c _
    exact asciiLower_idempotent c
  · cases h

/-! ### Non-vacuity and sanity -/

example : normalize "number:tinyint" (.str "+007") = .ok "7" := by decide +kernel
example : normalize "number:decimal:5:2:signed" (.dec true 15 (-1)) = .ok "-1.50" := by decide +kernel
example : normalize "number:decimal:5:2:signed" (.dec true 0 0) = .ok "0.00" := by decide +kernel
example : normalize "number:decimal:5:2" (.str "1e2") = .ok "100.00" := by decide +kernel
example : normalize "number:decimal:5:2" (.dec false 5 (-3)) = .ok "0.00" := by decide +kernel
example : normalize "number:decimal:5:2" (.dec false 15 (-3)) = .ok "0.02" := by decide +kernel
example : normalize "boolean" (.str "TRUE") = .reject := by decide +kernel
example : normalize "base64:0" (.str "YWE") = .ok "YWE=" := by decide +kernel
example : normalize "hex:2" (.str "AbCd") = .ok "abcd" := by decide +kernel
example : normalize "datetime" (.datetime 2020 1 1 1 0 0 0 (some 120)) = .ok "2019-12-31T23:00:00.000000Z" := by
  decide +kernel
example : accepts "number:decimal:5:2:signed" ⟨false, false, true, none⟩ "-1.50" = true := by decide +kernel

/-! ### datetime: conversion to UTC -/

/-- C13: normalising a datetime that carries a UTC offset yields the UTC notation of the same
instant: same minute since the epoch (seconds and microseconds are carried over) -/
theorem normDatetime_preserves_instant (y mo d h mi s us : Nat) (o : Int) (str : String)
    (hn : normDatetime (.datetime y mo d h mi s us (some o)) = .ok str) :
    ∃ y' mo' d' h' mi' : Nat, str = formatUtc y' mo' d' h' mi' s us ∧ 1000 ≤ y' ∧ y' ≤ 9999 ∧ 1 ≤ mo' ∧ mo' ≤ 12 ∧
      1 ≤ d' ∧ d' ≤ 31 ∧ h' < 24 ∧ mi' < 60 ∧
      instantMin y' mo' d' h' mi' = instantMin y mo d h mi - o := by
  simp only [normDatetime] at hn
  generalize hT : (daysFromCivil (y : Int) (mo : Int) (d : Int) * 24 + (h : Int)) * 60 + (mi : Int) - o = total at hn
  rw [Int.fdiv_eq_ediv_of_nonneg _ (by decide), Int.fmod_eq_emod_of_nonneg _ (by decide)] at hn
  generalize hC : civilFromDays (total / 1440) = c at hn
  obtain ⟨y', mo', d'⟩ := c
  simp only at hn
  split at hn
  · rename_i hg
    simp only [Bool.and_eq_true, decide_eq_true_eq] at hg
    have hdays : -719468 ≤ total / 1440 := by
      have := civilFromDays_early (total / 1440)
      rw [hC] at this
      simp only at this
      omega
    have hr := civilFromDays_range (total / 1440) hdays
    have hb := daysFromCivil_civilFromDays (total / 1440) hdays
    rw [hC] at hr hb
    simp only at hr hb
    simp only [Out.ok.injEq] at hn
    refine ⟨y'.toNat, mo'.toNat, d'.toNat, (total % 1440).toNat / 60, (total % 1440).toNat % 60, hn.symm, ?_, ?_, ?_, ?_, ?_, ?_, ?_, ?_, ?_⟩
    any_goals omega
    simp only [instantMin]
    have e1 : ((y'.toNat : Nat) : Int) = y' := by omega
    have e2 : ((mo'.toNat : Nat) : Int) = mo' := by omega
    have e3 : ((d'.toNat : Nat) : Int) = d' := by omega
    rw [e1, e2, e3, hb, hT]
    omega
  · cases hn


/-- C13: a valid UTC date and time (offset zero) is normalised to its own notation: conversion to
UTC changes nothing, so a naive datetime (taken as UTC) and the same datetime marked as UTC agree -/
theorem normDatetime_utc_fixed (y mo d h mi s us : Nat) (hy : 1000 ≤ y ∧ y ≤ 9999)
    (hv : validDate y mo d) (hh : h < 24) (hmi : mi < 60) :
    normDatetime (.datetime y mo d h mi s us (some 0)) = .ok (formatUtc y mo d h mi s us) ∧
    normDatetime (.datetime y mo d h mi s us none) = .ok (formatUtc y mo d h mi s us) := by
  constructor
  · simp only [normDatetime]
    rw [Int.fdiv_eq_ediv_of_nonneg _ (by decide), Int.fmod_eq_emod_of_nonneg _ (by decide)]
    generalize hD : daysFromCivil (y : Int) (mo : Int) (d : Int) = D
    have h1 : ((D * 24 + (h : Int)) * 60 + (mi : Int) - 0) / 1440 = D := by omega
    have h2 : ((D * 24 + (h : Int)) * 60 + (mi : Int) - 0) % 1440 = (h : Int) * 60 + mi := by omega
    rw [h1, h2, ← hD, civilFromDays_daysFromCivil y mo d (by omega) hv]
    simp only
    have hg : (decide ((1000 : Int) ≤ (y : Int)) && decide ((y : Int) ≤ 9999)) = true := by
      simp only [Bool.and_eq_true, decide_eq_true_eq]; omega
    rw [if_pos hg]
    have e1 : ((h : Int) * 60 + (mi : Int)).toNat = h * 60 + mi := by omega
    rw [e1]
    have e2 : (h * 60 + mi) / 60 = h := by omega
    have e3 : (h * 60 + mi) % 60 = mi := by omega
    simp only [e2, e3, Int.toNat_natCast]
  · simp only [normDatetime]
    rw [if_pos (by omega)]

theorem pad_two (v : Nat) (hv : v ≤ 99) : ∃ a b, pad 2 v = [a, b] ∧ isDigit a = true ∧ isDigit b = true ∧ natVal [a, b] = v := by
  have hl : (pad 2 v).length = 2 := padLeft_length (length_render_le 2 v (by decide) (by omega))
  have ha : (pad 2 v).all isDigit = true := padLeft_all (all_isDigit_render v)
  have hn : natVal (pad 2 v) = v := by rw [pad, natVal_padLeft, natVal_render]
  match hp : pad 2 v, hl with
  | [a, b], _ =>
    rw [hp] at ha hn
    simp only [List.all_cons, List.all_nil, Bool.and_true, Bool.and_eq_true] at ha
    exact ⟨a, b, rfl, ha.1, ha.2, hn⟩

theorem pad_four (v : Nat) (hv : v ≤ 9999) : ∃ a b c d, pad 4 v = [a, b, c, d] ∧ [a, b, c, d].all isDigit = true ∧ natVal [a, b, c, d] = v := by
  have hl : (pad 4 v).length = 4 := padLeft_length (length_render_le 4 v (by decide) (by omega))
  have ha : (pad 4 v).all isDigit = true := padLeft_all (all_isDigit_render v)
  have hn : natVal (pad 4 v) = v := by rw [pad, natVal_padLeft, natVal_render]
  match hp : pad 4 v, hl with
  | [a, b, c, d], _ =>
    rw [hp] at ha hn
    exact ⟨a, b, c, d, rfl, ha, hn⟩

theorem pad_six (v : Nat) (hv : v ≤ 999999) : ∃ a b c d e f, pad 6 v = [a, b, c, d, e, f] ∧ [a, b, c, d, e, f].all isDigit = true := by
  have hl : (pad 6 v).length = 6 := padLeft_length (length_render_le 6 v (by decide) (by omega))
  have ha : (pad 6 v).all isDigit = true := padLeft_all (all_isDigit_render v)
  match hp : pad 6 v, hl with
  | [a, b, c, d, e, f], _ =>
    rw [hp] at ha
    exact ⟨a, b, c, d, e, f, rfl, ha⟩

/-- C13/C03: the UTC notation of a real date and time of day from 1583 on is in the value space of `datetime` -/
theorem formatUtc_accepted (y mo d h mi s us : Nat) (hy : 1583 ≤ y ∧ y ≤ 9999) (hmo : 1 ≤ mo ∧ mo ≤ 12)
    (hd : 1 ≤ d ∧ d ≤ daysIn y mo) (hh : h ≤ 23) (hmi : mi ≤ 59) (hs : s ≤ 59) (hus : us ≤ 999999) :
    acceptsDatetime (formatUtc y mo d h mi s us).toList = true := by
  have hd31 : d ≤ 31 := by
    have : daysIn y mo ≤ 31 := by unfold daysIn; split <;> (try split) <;> omega
    omega
  obtain ⟨y1, y2, y3, y4, ey, ay, ny⟩ := pad_four y (by omega)
  obtain ⟨m1, m2, em, am1, am2, nm⟩ := pad_two mo (by omega)
  obtain ⟨d1, d2, ed, ad1, ad2, nd⟩ := pad_two d (by omega)
  obtain ⟨h1, h2, eh, ah1, ah2, nh⟩ := pad_two h (by omega)
  obtain ⟨n1, n2, en, an1, an2, nn⟩ := pad_two mi (by omega)
  obtain ⟨s1, s2, es, as1, as2, ns⟩ := pad_two s (by omega)
  obtain ⟨f1, f2, f3, f4, f5, f6, ef, af⟩ := pad_six us hus
  simp only [formatUtc, String.toList_ofList, ey, em, ed, eh, en, es, ef, List.cons_append, List.nil_append]
  simp only [List.all_cons, List.all_nil, Bool.and_true, Bool.and_eq_true] at ay af
  simp only [acceptsDatetime, ny, nm, nd, nh, nn, ns, List.all_cons, List.all_nil, Bool.and_true, Bool.and_eq_true,
    decide_eq_true_eq]
  simp only [ay, af, am1, am2, ad1, ad2, ah1, ah2, an1, an2, as1, as2, and_self, true_and]
  omega


/-- C13: a datetime with a UTC offset is normalised to the UTC notation of the same instant, and that
notation is in the value space of `datetime` (from the year 1583 on, where the value space begins) -/
theorem normDatetime_aware_sound (y mo d h mi s us : Nat) (o : Int) (str : String) (hs : s ≤ 59) (hus : us ≤ 999999)
    (hn : normDatetime (.datetime y mo d h mi s us (some o)) = .ok str) :
    ∃ y' mo' d' h' mi' : Nat, str = formatUtc y' mo' d' h' mi' s us ∧
      instantMin y' mo' d' h' mi' = instantMin y mo d h mi - o ∧
      (1583 ≤ y' → acceptsDatetime str.toList = true) := by
  simp only [normDatetime] at hn
  generalize hT : (daysFromCivil (y : Int) (mo : Int) (d : Int) * 24 + (h : Int)) * 60 + (mi : Int) - o = total at hn
  rw [Int.fdiv_eq_ediv_of_nonneg _ (by decide), Int.fmod_eq_emod_of_nonneg _ (by decide)] at hn
  generalize hC : civilFromDays (total / 1440) = c at hn
  obtain ⟨y', mo', d'⟩ := c
  simp only at hn
  split at hn
  · rename_i hg
    simp only [Bool.and_eq_true, decide_eq_true_eq] at hg
    have hdays : -719468 ≤ total / 1440 := by
      have := civilFromDays_early (total / 1440)
      rw [hC] at this
      simp only at this
      omega
    have hr := civilFromDays_range (total / 1440) hdays
    have hb := daysFromCivil_civilFromDays (total / 1440) hdays
    have hv := civilFromDays_validDate (total / 1440) hdays
    rw [hC] at hr hb hv
    simp only at hr hb hv
    simp only [Out.ok.injEq] at hn
    have e1 : ((y'.toNat : Nat) : Int) = y' := by omega
    have e2 : ((mo'.toNat : Nat) : Int) = mo' := by omega
    have e3 : ((d'.toNat : Nat) : Int) = d' := by omega
    refine ⟨y'.toNat, mo'.toNat, d'.toNat, (total % 1440).toNat / 60, (total % 1440).toNat % 60, hn.symm, ?_, ?_⟩
    · simp only [instantMin]
      rw [e1, e2, e3, hb, hT]
      omega
    · intro hy
      rw [← hn]
      have hvn : validDate (y'.toNat : Nat) (mo'.toNat : Nat) (d'.toNat : Nat) := by rw [e1, e2, e3]; exact hv
      obtain ⟨v1, v2, v3, v4⟩ := validDate_nat _ _ _ hvn
      exact formatUtc_accepted _ _ _ _ _ s us ⟨hy, by omega⟩ ⟨v1, v2⟩ ⟨v3, v4⟩ (by omega) (by omega) hs hus
  · cases hn

/-- C03/C13: the value space of `datetime` is exactly the UTC notations of real dates and times of day
from the year 1583 on (the normal forms that normalisation produces) -/
theorem accepts_datetime_iff (cs : List Char) :
    acceptsDatetime cs = true ↔
      ∃ y mo d h mi s us : Nat, (1583 ≤ y ∧ y ≤ 9999) ∧ (1 ≤ mo ∧ mo ≤ 12) ∧ (1 ≤ d ∧ d ≤ daysIn y mo) ∧ h ≤ 23 ∧ mi ≤ 59 ∧
        s ≤ 59 ∧ us ≤ 999999 ∧ cs = (formatUtc y mo d h mi s us).toList := by
  constructor
  · intro h
    unfold acceptsDatetime at h
    split at h
    · rename_i y1 y2 y3 y4 m1 m2 d1 d2 h1 h2 n1 n2 s1 s2 f1 f2 f3 f4 f5 f6
      simp only [List.all_cons, List.all_nil, Bool.and_true, Bool.and_eq_true, decide_eq_true_eq] at h
      obtain ⟨⟨⟨⟨⟨⟨⟨⟨hds, hy⟩, hm1⟩, hm2⟩, hd1⟩, hd2⟩, hh⟩, hn⟩, hs⟩ := h
      obtain ⟨a1, a2, a3, a4, a5, a6, a7, a8, a9, a10, a11, a12, a13, a14, a15, a16, a17, a18, a19, a20⟩ := hds
      have py := pad_natVal [y1, y2, y3, y4] (by simp [a1, a2, a3, a4]) (by simp)
      have pm := pad_natVal [m1, m2] (by simp [a5, a6]) (by simp)
      have pd := pad_natVal [d1, d2] (by simp [a7, a8]) (by simp)
      have ph := pad_natVal [h1, h2] (by simp [a9, a10]) (by simp)
      have pn := pad_natVal [n1, n2] (by simp [a11, a12]) (by simp)
      have ps := pad_natVal [s1, s2] (by simp [a13, a14]) (by simp)
      have pf := pad_natVal [f1, f2, f3, f4, f5, f6] (by simp [a15, a16, a17, a18, a19, a20]) (by simp)
      have hy4 := natVal_lt_pow [y1, y2, y3, y4] (by simp [a1, a2, a3, a4])
      have hf6 := natVal_lt_pow [f1, f2, f3, f4, f5, f6] (by simp [a15, a16, a17, a18, a19, a20])
      simp only [List.length_cons, List.length_nil] at py pm pd ph pn ps pf hy4 hf6
      refine ⟨natVal [y1, y2, y3, y4], natVal [m1, m2], natVal [d1, d2], natVal [h1, h2], natVal [n1, n2], natVal [s1, s2],
        natVal [f1, f2, f3, f4, f5, f6], ⟨hy, by omega⟩, ⟨hm1, hm2⟩, ⟨hd1, hd2⟩, hh, hn, hs, by omega, ?_⟩
      simp only [formatUtc, String.toList_ofList, pad, py, pm, pd, ph, pn, ps, pf, List.cons_append, List.nil_append]
    · cases h
  · rintro ⟨y, mo, d, h, mi, s, us, hy, hmo, hd, hh, hmi, hs, hus, rfl⟩
    exact formatUtc_accepted y mo d h mi s us hy hmo hd hh hmi hs hus

/-- a date and an offset for which the theorem above is not vacuous: 2020-02-29T23:30+02:00 -/
example : normDatetime (.datetime 2020 2 29 23 30 5 7 (some 120)) = .ok "2020-02-29T21:30:05.000007Z" := by decide +kernel
example : normDatetime (.datetime 2020 3 1 0 30 5 7 (some 120)) = .ok "2020-02-29T22:30:05.000007Z" := by decide +kernel
example : validDate 2020 2 29 ∧ ¬ validDate 2021 2 29 := by
  unfold validDate daysInMonth leapYear; decide

end EdxmlProps.C13
