/-
C05 — Merging is insensitive to arrival order, duplication and batching.
-/
import EdxmlModel
import EdxmlProps.Lemmas.MergeAlg
import EdxmlProps.Lemmas.Stream
import EdxmlProps.C04
namespace EdxmlProps.C05
open Edxml EdxmlProps.C04

/-- When the merged objects of property `s` do not depend on the order of the instances:
`add` always; `match` because colliding instances agree on hashed properties; `min`/`max` when the
comparison key is injective on the objects present (Python keeps the *first* of two tied objects);
`replace` under an event version; `set` and `any` are order dependent by design. -/
def OrderFree (vp : Option String) (es : List Event) (s : PropSpec) : Prop :=
  match s.merge with
  | .add => True
  | .match_ => ∀ e ∈ es, ∀ e' ∈ es, e.objects s.name = e'.objects s.name
  | .min | .max => ∀ e ∈ es, ∀ e' ∈ es, ∀ a ∈ e.objects s.name, ∀ b ∈ e'.objects s.name,
      keyLe s.numeric a b = true → keyLe s.numeric b a = true → a = b
  | .replace => vp.isSome = true
  | .set | .any => False

theorem no_conflict_of_ok (specs : List PropSpec) (vp : Option String) (es : List Event) (r : Event)
    (h : mergeEvents specs vp es = .ok r) (v : String) (hv : vp = some v)
    (a : Event) (ha : a ∈ es) (b : Event) (hb : b ∈ es) (hab : versionInt v a = versionInt v b)
    (s : PropSpec) (hs : s ∈ specs) : a.objects s.name = b.objects s.name := by
  apply Classical.byContradiction
  intro hne
  have := (conflict_iff specs vp es).mpr ⟨v, hv, a, ha, b, hb, hab, s, hs, hne⟩
  rw [h] at this; cases this

/-- Two lists of instances with the same members (a permutation, or one with repetitions) merge to
the same objects for every order-free property. -/
theorem merge_same_members (specs : List PropSpec) (hn : (specs.map (·.name)).Nodup)
    (vp : Option String) (es₁ es₂ : List Event) (hm : ∀ x, x ∈ es₁ ↔ x ∈ es₂)
    (r₁ r₂ : Event) (h₁ : mergeEvents specs vp es₁ = .ok r₁) (h₂ : mergeEvents specs vp es₂ = .ok r₂)
    (s : PropSpec) (hs : s ∈ specs) (hof : OrderFree vp es₁ s) :
    r₁.objects s.name = r₂.objects s.name := by
  unfold OrderFree at hof
  cases hmerge : s.merge with
  | match_ =>
    rw [hmerge] at hof; simp only at hof
    obtain ⟨f₁, _, hv₁, _⟩ := merge_ok_shape specs vp es₁ r₁ h₁
    have hf₁ : f₁ ∈ es₁ := (mem_versionOrder vp es₁ f₁).mp (by rw [hv₁]; simp)
    rw [merge_match_unchanged specs hn vp es₁ r₁ h₁ s hs hmerge (f₁.objects s.name)
        (fun e he => hof e he f₁ hf₁),
      merge_match_unchanged specs hn vp es₂ r₂ h₂ s hs hmerge (f₁.objects s.name)
        (fun e he => hof e ((hm e).mpr he) f₁ hf₁)]
  | any => rw [hmerge] at hof; exact hof.elim
  | add =>
    rw [hmerge] at hof; simp only at hof
    rw [← objects_canon r₁, ← objects_canon r₂]
    apply (canonS_eq_iff _ _).mpr
    intro v
    rw [merge_add_union specs hn vp es₁ r₁ h₁ s hs hmerge, merge_add_union specs hn vp es₂ r₂ h₂ s hs hmerge]
    constructor
    · rintro ⟨e, he, hv⟩; exact ⟨e, (hm e).mp he, hv⟩
    · rintro ⟨e, he, hv⟩; exact ⟨e, (hm e).mpr he, hv⟩
  | replace =>
    rw [hmerge] at hof; simp only at hof
    cases vp with
    | none => cases hof
    | some v =>
      obtain ⟨e₁, he₁, ho₁, hmax₁⟩ := merge_replace_highest_version specs hn _ es₁ r₁ h₁ v rfl s hs hmerge
      obtain ⟨e₂, he₂, ho₂, hmax₂⟩ := merge_replace_highest_version specs hn _ es₂ r₂ h₂ v rfl s hs hmerge
      have hv : versionInt v e₁ = versionInt v e₂ := by
        have a := hmax₁ e₂ ((hm e₂).mpr he₂)
        have b := hmax₂ e₁ ((hm e₁).mp he₁)
        omega
      rw [ho₁, ho₂]
      exact no_conflict_of_ok specs _ es₁ r₁ h₁ v rfl e₁ he₁ e₂ ((hm e₂).mpr he₂) hv s hs
  | set => rw [hmerge] at hof; exact hof.elim
  | min =>
    rw [hmerge] at hof; simp only at hof
    by_cases hne : ∃ e ∈ es₁, e.objects s.name ≠ []
    · obtain ⟨m₁, ho₁, ⟨a₁, ha₁, hm₁⟩, hle₁⟩ := merge_min_is_least specs hn vp es₁ r₁ h₁ s hs hmerge hne
      have hne₂ : ∃ e ∈ es₂, e.objects s.name ≠ [] := by
        obtain ⟨e, he, h⟩ := hne; exact ⟨e, (hm e).mp he, h⟩
      obtain ⟨m₂, ho₂, ⟨a₂, ha₂, hm₂⟩, hle₂⟩ := merge_min_is_least specs hn vp es₂ r₂ h₂ s hs hmerge hne₂
      have e12 : m₁ = m₂ := hof a₁ ha₁ a₂ ((hm a₂).mpr ha₂) m₁ hm₁ m₂ hm₂
        (hle₁ a₂ ((hm a₂).mpr ha₂) m₂ hm₂) (hle₂ a₁ ((hm a₁).mp ha₁) m₁ hm₁)
      rw [ho₁, ho₂, e12]
    · have hall : ∀ e ∈ es₁, e.objects s.name = [] := by
        intro e he
        apply Classical.byContradiction
        intro h; exact hne ⟨e, he, h⟩
      have e1 : r₁.objects s.name = [] := by
        apply List.eq_nil_iff_forall_not_mem.mpr
        intro v hv
        obtain ⟨_, _, _, e, he, hve⟩ := merge_objects_from_instances specs vp es₁ r₁ h₁ s.name v ((mem_objects _ _ _).mp hv)
        rw [hall e he] at hve; cases hve
      have e2 : r₂.objects s.name = [] := by
        apply List.eq_nil_iff_forall_not_mem.mpr
        intro v hv
        obtain ⟨_, _, _, e, he, hve⟩ := merge_objects_from_instances specs vp es₂ r₂ h₂ s.name v ((mem_objects _ _ _).mp hv)
        rw [hall e ((hm e).mpr he)] at hve; cases hve
      rw [e1, e2]
  | max =>
    rw [hmerge] at hof; simp only at hof
    by_cases hne : ∃ e ∈ es₁, e.objects s.name ≠ []
    · obtain ⟨m₁, ho₁, ⟨a₁, ha₁, hm₁⟩, hle₁⟩ := merge_max_is_greatest specs hn vp es₁ r₁ h₁ s hs hmerge hne
      have hne₂ : ∃ e ∈ es₂, e.objects s.name ≠ [] := by
        obtain ⟨e, he, h⟩ := hne; exact ⟨e, (hm e).mp he, h⟩
      obtain ⟨m₂, ho₂, ⟨a₂, ha₂, hm₂⟩, hle₂⟩ := merge_max_is_greatest specs hn vp es₂ r₂ h₂ s hs hmerge hne₂
      have e12 : m₁ = m₂ := hof a₁ ha₁ a₂ ((hm a₂).mpr ha₂) m₁ hm₁ m₂ hm₂
        (hle₂ a₁ ((hm a₁).mp ha₁) m₁ hm₁) (hle₁ a₂ ((hm a₂).mpr ha₂) m₂ hm₂)
      rw [ho₁, ho₂, e12]
    · have hall : ∀ e ∈ es₁, e.objects s.name = [] := by
        intro e he
        apply Classical.byContradiction
        intro h; exact hne ⟨e, he, h⟩
      have e1 : r₁.objects s.name = [] := by
        apply List.eq_nil_iff_forall_not_mem.mpr
        intro v hv
        obtain ⟨_, _, _, e, he, hve⟩ := merge_objects_from_instances specs vp es₁ r₁ h₁ s.name v ((mem_objects _ _ _).mp hv)
        rw [hall e he] at hve; cases hve
      have e2 : r₂.objects s.name = [] := by
        apply List.eq_nil_iff_forall_not_mem.mpr
        intro v hv
        obtain ⟨_, _, _, e, he, hve⟩ := merge_objects_from_instances specs vp es₂ r₂ h₂ s.name v ((mem_objects _ _ _).mp hv)
        rw [hall e ((hm e).mpr he)] at hve; cases hve
      rw [e1, e2]

/-- Parents, and whether a conflict is reported, depend only on the set of instances. -/
theorem merge_same_members_parents (specs : List PropSpec) (vp : Option String) (es₁ es₂ : List Event)
    (hm : ∀ x, x ∈ es₁ ↔ x ∈ es₂) (r₁ r₂ : Event)
    (h₁ : mergeEvents specs vp es₁ = .ok r₁) (h₂ : mergeEvents specs vp es₂ = .ok r₂) :
    r₁.parents = r₂.parents := by
  obtain ⟨_, _, _, hr₁⟩ := merge_ok_shape specs vp es₁ r₁ h₁
  obtain ⟨_, _, _, hr₂⟩ := merge_ok_shape specs vp es₂ r₂ h₂
  subst hr₁; subst hr₂
  simp only
  apply (canonS_eq_iff _ _).mpr
  intro x
  simp only [List.mem_flatMap, mem_versionOrder]
  constructor
  · rintro ⟨e, he, hx⟩; exact ⟨e, (hm e).mp he, hx⟩
  · rintro ⟨e, he, hx⟩; exact ⟨e, (hm e).mpr he, hx⟩

theorem merge_same_members_conflict (specs : List PropSpec) (vp : Option String) (es₁ es₂ : List Event)
    (hm : ∀ x, x ∈ es₁ ↔ x ∈ es₂) :
    mergeEvents specs vp es₁ = .error .conflict ↔ mergeEvents specs vp es₂ = .error .conflict := by
  rw [conflict_iff, conflict_iff]
  constructor
  · rintro ⟨v, hv, a, ha, b, hb, h⟩; exact ⟨v, hv, a, (hm a).mp ha, b, (hm b).mp hb, h⟩
  · rintro ⟨v, hv, a, ha, b, hb, h⟩; exact ⟨v, hv, a, (hm a).mpr ha, b, (hm b).mpr hb, h⟩

/-- **Permutation invariance.** Every permutation of a group of colliding events merges to the same
objects (order-free strategies), the same parents, and reports a conflict for one order iff for all. -/
theorem merge_perm (specs : List PropSpec) (hn : (specs.map (·.name)).Nodup)
    (vp : Option String) (es₁ es₂ : List Event) (hp : es₁.Perm es₂) :
    (mergeEvents specs vp es₁ = .error .conflict ↔ mergeEvents specs vp es₂ = .error .conflict) ∧
    ∀ r₁ r₂, mergeEvents specs vp es₁ = .ok r₁ → mergeEvents specs vp es₂ = .ok r₂ →
      r₁.parents = r₂.parents ∧
      ∀ s ∈ specs, OrderFree vp es₁ s → r₁.objects s.name = r₂.objects s.name :=
  ⟨merge_same_members_conflict specs vp es₁ es₂ (fun _ => hp.mem_iff),
   fun r₁ r₂ h₁ h₂ => ⟨merge_same_members_parents specs vp es₁ es₂ (fun _ => hp.mem_iff) r₁ r₂ h₁ h₂,
     fun s hs hof => merge_same_members specs hn vp es₁ es₂ (fun _ => hp.mem_iff) r₁ r₂ h₁ h₂ s hs hof⟩⟩

/-- **Duplication.** Adding a copy of an instance changes nothing. -/
theorem merge_dup (specs : List PropSpec) (hn : (specs.map (·.name)).Nodup)
    (vp : Option String) (e : Event) (es : List Event) (r₁ r₂ : Event)
    (h₁ : mergeEvents specs vp (e :: es) = .ok r₁) (h₂ : mergeEvents specs vp (e :: e :: es) = .ok r₂) :
    r₁.parents = r₂.parents ∧
    ∀ s ∈ specs, OrderFree vp (e :: es) s → r₁.objects s.name = r₂.objects s.name := by
  have hm : ∀ x, x ∈ e :: es ↔ x ∈ e :: e :: es := by intro x; simp
  exact ⟨merge_same_members_parents specs vp _ _ hm r₁ r₂ h₁ h₂,
    fun s hs hof => merge_same_members specs hn vp _ _ hm r₁ r₂ h₁ h₂ s hs hof⟩

theorem versionOrder_pair_self (vp : Option String) (e : Event) : versionOrder vp [e, e] = [e, e] := by
  cases vp with
  | none => rfl
  | some v => simp [versionOrder, stableSort, insertByKey]

/-- **Merging an event with a copy of itself returns an equal event**: same type, source,
attachments, foreign attributes, parents (as a set) and the same objects for every property
(for min/max: when the property is single-valued in the event, as validity demands). -/
theorem merge_self (specs : List PropSpec) (hn : (specs.map (·.name)).Nodup)
    (vp : Option String) (e r : Event) (h : mergeEvents specs vp [e, e] = .ok r) :
    r.type = e.type ∧ r.source = e.source ∧ r.atts = e.atts ∧ r.foreign = e.foreign ∧
    r.parents = canonS e.parents ∧
    ∀ s ∈ specs, ((s.merge = .min ∨ s.merge = .max) → (e.objects s.name).length ≤ 1) →
      r.objects s.name = e.objects s.name := by
  obtain ⟨first, rest, hv, hr⟩ := merge_ok_shape specs vp [e, e] r h
  rw [versionOrder_pair_self] at hv hr
  simp only [List.cons.injEq] at hv
  obtain ⟨rfl, _⟩ := hv
  refine ⟨by rw [hr], by rw [hr], by rw [hr], by rw [hr], ?_, ?_⟩
  · rw [hr]
    simp only
    apply (canonS_eq_iff _ _).mpr
    intro x; simp
  · intro s hs hone
    rw [merged_objects specs hn vp [e, e] r h s hs, versionOrder_pair_self, mergeProp_eq]
    simp only [List.map_cons, List.map_nil]
    have hc := objects_canon e s.name
    cases hm : s.merge <;> simp only [mergeObjs]
    · -- match
      simp only [firstNE]; split <;> simp_all
    · simp only [firstNE]; split <;> simp_all
    · -- add
      have : canonS ([e.objects s.name, e.objects s.name].flatten) = canonS (e.objects s.name) :=
        (canonS_eq_iff _ _).mpr (by intro x; simp)
      rw [this, hc]
    · simp [List.getLast?_cons_cons]
    · simp only [firstNE]; split <;> simp_all
    · -- min
      have := hone (Or.inl hm)
      cases ho : e.objects s.name with
      | nil => rfl
      | cons x xs =>
        rw [ho] at this
        cases xs with
        | nil => simp [pyMin, lmin]
        | cons y ys => simp at this
    · have := hone (Or.inr hm)
      cases ho : e.objects s.name with
      | nil => rfl
      | cons x xs =>
        rw [ho] at this
        cases xs with
        | nil => simp [pyMax]
        | cons y ys => simp at this

/-! ### Batching (event types without a version property) -/

theorem merge_none_ok (specs : List PropSpec) (es : List Event) (hne : es ≠ []) :
    ∃ r, mergeEvents specs none es = .ok r := by
  cases es with
  | nil => exact absurd rfl hne
  | cons e es => exact ⟨_, rfl⟩

/-- The merged objects of property `s` as a function of the instances' object sets. -/
theorem merged_objects_none (specs : List PropSpec) (hn : (specs.map (·.name)).Nodup)
    (es : List Event) (r : Event) (h : mergeEvents specs none es = .ok r) (s : PropSpec) (hs : s ∈ specs) :
    r.objects s.name = mergeObjs s.merge s.numeric (es.map (·.objects s.name)) := by
  rw [merged_objects specs hn none es r h s hs, mergeProp_eq]; rfl

theorem merged_parents_none (specs : List PropSpec) (es : List Event) (r : Event)
    (h : mergeEvents specs none es = .ok r) : r.parents = canonS (es.flatMap (·.parents)) := by
  obtain ⟨_, _, _, hr⟩ := merge_ok_shape specs none es r h
  rw [hr]; rfl

/-- **Partial merges may be merged** (no version property): replacing a run `xs` of the instances
by its merge `m` gives the same objects for every property and the same parents. Folding events in
one at a time and merging partial merges are instances of this law. -/
theorem merge_assoc (specs : List PropSpec) (hn : (specs.map (·.name)).Nodup)
    (pre xs post : List Event) (m r₁ r₂ : Event)
    (hm : mergeEvents specs none xs = .ok m)
    (h₁ : mergeEvents specs none (pre ++ m :: post) = .ok r₁)
    (h₂ : mergeEvents specs none (pre ++ xs ++ post) = .ok r₂) :
    r₁.parents = r₂.parents ∧ ∀ s ∈ specs, r₁.objects s.name = r₂.objects s.name := by
  have hx : xs ≠ [] := by
    intro hnil; rw [hnil] at hm; cases hm
  constructor
  · rw [merged_parents_none specs _ r₁ h₁, merged_parents_none specs _ r₂ h₂]
    apply (canonS_eq_iff _ _).mpr
    intro x
    simp only [List.flatMap_append, List.flatMap_cons, List.mem_append]
    rw [merged_parents_none specs xs m hm, mem_canonS]
    constructor
    · rintro (h | h | h)
      · exact Or.inl (Or.inl h)
      · exact Or.inl (Or.inr h)
      · exact Or.inr h
    · rintro ((h | h) | h)
      · exact Or.inl h
      · exact Or.inr (Or.inl h)
      · exact Or.inr (Or.inr h)
  · intro s hs
    rw [merged_objects_none specs hn _ r₁ h₁ s hs, merged_objects_none specs hn _ r₂ h₂ s hs]
    simp only [List.map_append, List.map_cons]
    rw [merged_objects_none specs hn xs m hm s hs]
    exact mergeObjs_middle s.merge s.numeric _ _ _ (by simpa using hx)

/-- **One at a time = all at once** (no version property). -/
theorem merge_fold_eq_batch (specs : List PropSpec) (hn : (specs.map (·.name)).Nodup) :
    ∀ (ys : List Event) (e y : Event) (r₁ r₂ : Event),
      foldEvents specs none e (y :: ys) = .ok r₁ → mergeEvents specs none (e :: y :: ys) = .ok r₂ →
      r₁.parents = r₂.parents ∧ ∀ s ∈ specs, r₁.objects s.name = r₂.objects s.name
  | [], e, y, r₁, r₂, h₁, h₂ => by
    simp only [foldEvents] at h₁
    cases hm : mergeEvents specs none [e, y] with
    | error err => rw [hm] at h₁; cases h₁
    | ok m =>
      rw [hm] at h₁; simp only [foldEvents, Except.ok.injEq] at h₁
      rw [h₂] at hm; cases hm; cases h₁
      exact ⟨rfl, fun _ _ => rfl⟩
  | y2 :: ys, e, y, r₁, r₂, h₁, h₂ => by
    simp only [foldEvents] at h₁
    cases hm : mergeEvents specs none [e, y] with
    | error err => rw [hm] at h₁; cases h₁
    | ok m =>
      rw [hm] at h₁
      simp only at h₁
      obtain ⟨r₃, h₃⟩ := merge_none_ok specs (m :: y2 :: ys) (by simp)
      have ih := merge_fold_eq_batch specs hn ys m y2 r₁ r₃ h₁ h₃
      have as := merge_assoc specs hn [] [e, y] (y2 :: ys) m r₃ r₂ hm (by simpa using h₃) (by simpa using h₂)
      exact ⟨ih.1.trans as.1, fun s hs => (ih.2 s hs).trans (as.2 s hs)⟩

/-! ### Stream mergers (event types without a version property)

`key` is the function events are bucketed by (the sticky hash). `KeyStable` says that merging
events of one bucket gives an event of that bucket; for the sticky hash this is `merge_hash_eq`
(C04), see `stickyKey_stable` below. -/

def objsOf (s : PropSpec) (L : List Event) : List (List String) := L.map (·.objects s.name)

def KeyStable (key : Event → Bytes) (specs : List PropSpec) : Prop :=
  ∀ (h : Bytes) (g : List Event) (r : Event), (∀ e ∈ g, key e = h) →
    mergeEvents specs none g = .ok r → key r = h

/-- Two events denote the same logical event content: same parents (as sets) and the same objects
for every property of the event type. -/
def SameLogical (specs : List PropSpec) (r₁ r₂ : Event) : Prop :=
  (∀ x, x ∈ r₁.parents ↔ x ∈ r₂.parents) ∧ ∀ s ∈ specs, r₁.objects s.name = r₂.objects s.name

theorem mergeGroup_objects (specs : List PropSpec) (hn : (specs.map (·.name)).Nodup)
    (L : List Event) (r : Event) (h : mergeGroup specs none L = .ok r) (s : PropSpec) (hs : s ∈ specs) :
    r.objects s.name = mgo s.merge s.numeric (objsOf s L) := by
  match L, h with
  | [], h => simp [mergeGroup, mergeEvents, versionOrder, conflictIn] at h
  | [e], h => simp only [mergeGroup, Except.ok.injEq] at h; subst h; rfl
  | a :: b :: t, h =>
    have h' : mergeEvents specs none (a :: b :: t) = .ok r := h
    rw [merged_objects_none specs hn _ r h' s hs]; rfl

theorem mergeGroup_parents (specs : List PropSpec) (L : List Event) (r : Event)
    (h : mergeGroup specs none L = .ok r) (x : String) : x ∈ r.parents ↔ ∃ e ∈ L, x ∈ e.parents := by
  match L, h with
  | [], h => simp [mergeGroup, mergeEvents, versionOrder, conflictIn] at h
  | [e], h => simp only [mergeGroup, Except.ok.injEq] at h; subst h; simp
  | a :: b :: t, h =>
    have h' : mergeEvents specs none (a :: b :: t) = .ok r := h
    exact merge_parents_union specs none _ r h' x

theorem mergeGroup_key (key : Event → Bytes) (specs : List PropSpec) (hks : KeyStable key specs)
    (h : Bytes) (g : List Event) (r : Event) (hg : g ≠ []) (hall : ∀ e ∈ g, key e = h)
    (hr : mergeGroup specs none g = .ok r) : key r = h := by
  match g, hg, hr with
  | [e], _, hr => simp only [mergeGroup, Except.ok.injEq] at hr; subst hr; exact hall e (by simp)
  | a :: b :: t, _, hr => exact hks h _ r hall hr

/-- What one batch contributes to bucket `h` of the output. -/
theorem batch_fact (key : Event → Bytes) (F : List Event → Except MergeErr Event)
    (hF : ∀ (h : Bytes) (g : List Event) (r : Event), g ≠ [] → (∀ e ∈ g, key e = h) → F g = .ok r → key r = h)
    (c R : List Event) (hR : perKey key F c = .ok R) (h : Bytes) :
    (groupOf key h c = [] ∧ groupOf key h R = []) ∨
    (groupOf key h c ≠ [] ∧ ∃ r, F (groupOf key h c) = .ok r ∧ groupOf key h R = [r]) := by
  have hF' : ∀ h r, h ∈ keysOf key c → F (groupOf key h c) = .ok r → key r = h := by
    intro h r hk hr
    have hne : groupOf key h c ≠ [] := fun e => ((groupOf_eq_nil_iff key c h).mp e) hk
    exact hF h _ r hne (fun e he => ((mem_groupOf key c h e).mp he).2) hr
  have pk := perKey_group key F c R hR hF' h
  by_cases hk : h ∈ keysOf key c
  · right
    exact ⟨fun e => ((groupOf_eq_nil_iff key c h).mp e) hk, pk.1 hk⟩
  · left
    exact ⟨(groupOf_eq_nil_iff key c h).mpr hk, pk.2 hk⟩

theorem groupOf_append (key : Event → Bytes) (h : Bytes) (a b : List Event) :
    groupOf key h (a ++ b) = groupOf key h a ++ groupOf key h b := by
  unfold groupOf; exact List.filter_append ..

theorem objsOf_flatten (key : Event → Bytes) (h : Bytes) (s : PropSpec) : ∀ (cs : List (List Event)),
    objsOf s (groupOf key h cs.flatten) = (cs.map fun c => objsOf s (groupOf key h c)).flatten
  | [] => rfl
  | c :: cs => by
    simp only [List.flatten_cons, groupOf_append, List.map_cons]
    unfold objsOf at *
    rw [List.map_append]
    congr 1
    exact objsOf_flatten key h s cs

/-- Bucket `h` of the concatenated outputs of all batches, against bucket `h` of the input. -/
theorem batches_bucket (key : Event → Bytes) (specs : List PropSpec) (hn : (specs.map (·.name)).Nodup)
    (hks : KeyStable key specs) (h : Bytes) :
    ∀ (cs Rs : List (List Event)), Forall2 (fun c R => resolveBy key specs none c = .ok R) cs Rs →
      (groupOf key h Rs.flatten = [] ↔ groupOf key h cs.flatten = []) ∧
      (∀ x, (∃ m ∈ groupOf key h Rs.flatten, x ∈ m.parents) ↔ ∃ e ∈ groupOf key h cs.flatten, x ∈ e.parents) ∧
      ∀ s ∈ specs, objsOf s (groupOf key h Rs.flatten)
        = collapse s.merge s.numeric (cs.map fun c => objsOf s (groupOf key h c)) := by
  intro cs Rs hf
  induction hf with
  | nil => exact ⟨Iff.rfl, fun _ => Iff.rfl, fun _ _ => rfl⟩
  | @cons c R cs Rs hcR _ ih =>
    have hF : ∀ (h : Bytes) (g : List Event) (r : Event), g ≠ [] → (∀ e ∈ g, key e = h) →
        mergeGroup specs none g = .ok r → key r = h := fun h g r hg hall hr => mergeGroup_key key specs hks h g r hg hall hr
    have bf := batch_fact key (mergeGroup specs none) hF c R hcR h
    simp only [List.flatten_cons, groupOf_append]
    rcases bf with ⟨hc, hR⟩ | ⟨hc, r, hr, hR⟩
    · rw [hc, hR]
      simp only [List.nil_append]
      refine ⟨ih.1, ih.2.1, ?_⟩
      intro s hs
      rw [ih.2.2 s hs]
      simp [collapse, objsOf, hc]
    · rw [hR]
      refine ⟨?_, ?_, ?_⟩
      · constructor
        · intro e; simp at e
        · intro e
          have := List.append_eq_nil_iff.mp e
          exact absurd this.1 hc
      · intro x
        simp only [List.mem_append, List.mem_singleton]
        constructor
        · rintro ⟨m, (rfl | hm), hx⟩
          · obtain ⟨e, he, hxe⟩ := (mergeGroup_parents specs _ m hr x).mp hx
            exact ⟨e, Or.inl he, hxe⟩
          · obtain ⟨e, he, hxe⟩ := (ih.2.1 x).mp ⟨m, hm, hx⟩
            exact ⟨e, Or.inr he, hxe⟩
        · rintro ⟨e, (he | he), hx⟩
          · exact ⟨r, Or.inl rfl, (mergeGroup_parents specs _ r hr x).mpr ⟨e, he, hx⟩⟩
          · obtain ⟨m, hm, hxm⟩ := (ih.2.1 x).mpr ⟨e, he, hx⟩
            exact ⟨m, Or.inr hm, hxm⟩
      · intro s hs
        have hne : objsOf s (groupOf key h c) ≠ [] := by
          unfold objsOf; intro e; exact hc (List.map_eq_nil_iff.mp e)
        unfold objsOf at *
        simp only [List.map_append, List.map_cons, List.map_nil]
        rw [ih.2.2 s hs]
        simp only [collapse, List.flatMap_cons, hne, if_false, List.singleton_append]
        congr 1
        exact mergeGroup_objects specs hn _ r hr s hs

/-- **Buffering stream merger.** For every buffer size `k`, every bucket of the output of
`BufferingEDXMLEventMerger` resolves to the same logical event as that bucket of the input: the
same buckets are present, and merging a bucket's output events gives the same parents and the
same objects for every property as merging the bucket's input events at once. -/
theorem buffer_merger_resolve (key : Event → Bytes) (specs : List PropSpec)
    (hn : (specs.map (·.name)).Nodup) (hks : KeyStable key specs) (k : Nat) (es out : List Event)
    (hout : bufferMergerBy key specs none k es = .ok out) (h : Bytes) :
    (groupOf key h out = [] ↔ groupOf key h es = []) ∧
    ∀ r₁ r₂, mergeGroup specs none (groupOf key h out) = .ok r₁ →
      mergeGroup specs none (groupOf key h es) = .ok r₂ → SameLogical specs r₁ r₂ := by
  unfold bufferMergerBy at hout
  cases hm : mapE (resolveBy key specs none) (chunksL k es) with
  | error e => rw [hm] at hout; cases hout
  | ok Rs =>
    rw [hm] at hout
    simp only [Except.ok.injEq] at hout
    subst hout
    have bb := batches_bucket key specs hn hks h _ Rs (mapE_ok hm)
    rw [chunksL_flatten] at bb
    refine ⟨bb.1, ?_⟩
    intro r₁ r₂ h₁ h₂
    constructor
    · intro x
      rw [mergeGroup_parents specs _ r₁ h₁ x, mergeGroup_parents specs _ r₂ h₂ x]
      exact bb.2.1 x
    · intro s hs
      rw [mergeGroup_objects specs hn _ r₁ h₁ s hs, mergeGroup_objects specs hn _ r₂ h₂ s hs,
        bb.2.2 s hs]
      have := mgo_collapse s.merge s.numeric ((chunksL k es).map fun c => objsOf s (groupOf key h c)) []
      simp only [List.nil_append] at this
      rw [this, ← objsOf_flatten, chunksL_flatten]

theorem foldEvents_key (key : Event → Bytes) (specs : List PropSpec) (hks : KeyStable key specs) (h : Bytes) :
    ∀ (ys : List Event) (e r : Event), key e = h → (∀ y ∈ ys, key y = h) →
      foldEvents specs none e ys = .ok r → key r = h
  | [], e, r, he, _, hr => by simp only [foldEvents, Except.ok.injEq] at hr; subst hr; exact he
  | y :: ys, e, r, he, hys, hr => by
    simp only [foldEvents] at hr
    cases hm : mergeEvents specs none [e, y] with
    | error err => rw [hm] at hr; cases hr
    | ok m =>
      rw [hm] at hr
      have hkm : key m = h := hks h [e, y] m (by
        intro z hz
        simp only [List.mem_cons, List.not_mem_nil, or_false] at hz
        rcases hz with rfl | rfl
        · exact he
        · exact hys _ (by simp)) hm
      exact foldEvents_key key specs hks h ys m r hkm (fun z hz => hys z (List.mem_cons_of_mem _ hz)) hr

/-- **Unbuffered stream merger.** Every bucket of the output of `EDXMLEventMerger` holds exactly one
event, which denotes the same logical event as merging that bucket of the input at once. -/
theorem fold_merger_resolve (key : Event → Bytes) (specs : List PropSpec)
    (hn : (specs.map (·.name)).Nodup) (hks : KeyStable key specs) (es out : List Event)
    (hout : foldMergerBy key specs none es = .ok out) (h : Bytes) :
    (groupOf key h out = [] ↔ groupOf key h es = []) ∧
    ∀ r₂, mergeGroup specs none (groupOf key h es) = .ok r₂ →
      ∃ r₁, groupOf key h out = [r₁] ∧ SameLogical specs r₁ r₂ := by
  have hF : ∀ (h : Bytes) (g : List Event) (r : Event), g ≠ [] → (∀ e ∈ g, key e = h) →
      foldGroup specs none g = .ok r → key r = h := by
    intro h g r hg hall hr
    match g, hg, hr with
    | e :: rest, _, hr =>
      exact foldEvents_key key specs hks h rest e r (hall e (by simp))
        (fun y hy => hall y (List.mem_cons_of_mem _ hy)) hr
  rcases batch_fact key (foldGroup specs none) hF es out hout h with ⟨hc, hR⟩ | ⟨hc, r, hr, hR⟩
  · refine ⟨by rw [hc, hR], ?_⟩
    intro r₂ h₂
    rw [hc] at h₂
    simp [mergeGroup, mergeEvents, versionOrder, conflictIn] at h₂
  · refine ⟨⟨fun e => by rw [hR] at e; simp at e, fun e => absurd e hc⟩, ?_⟩
    intro r₂ h₂
    refine ⟨r, hR, ?_⟩
    match hg : groupOf key h es, hc with
    | [e], _ =>
      rw [hg] at hr h₂
      simp only [foldGroup, foldEvents, Except.ok.injEq] at hr
      simp only [mergeGroup, Except.ok.injEq] at h₂
      subst hr; subst h₂
      exact ⟨fun _ => Iff.rfl, fun _ _ => rfl⟩
    | e :: y :: ys, _ =>
      rw [hg] at hr h₂
      have h₂' : mergeEvents specs none (e :: y :: ys) = .ok r₂ := h₂
      have := merge_fold_eq_batch specs hn ys e y r r₂ hr h₂'
      exact ⟨fun x => by rw [this.1], this.2⟩

/-- The sticky hash is a stable key: when the events of a bucket agree on type, source and hashed
objects (as events with equal sticky hash do, by `C01.hashInput_injective`), their merge has the
same hash input. -/
theorem stickyKey_stable_on (specs : List PropSpec) (hn : (specs.map (·.name)).Nodup)
    (h : Bytes) (g : List Event) (r : Event) (hall : ∀ e ∈ g, stickyKey specs e = h)
    (hwf : ∀ e ∈ g, C01.WF (hashedNames specs) e)
    (hr : mergeEvents specs none g = .ok r) : stickyKey specs r = h := by
  cases g with
  | nil => cases hr
  | cons a t =>
    have ha : a ∈ a :: t := by simp
    have inj := fun e (he : e ∈ a :: t) =>
      C01.hashInput_injective (hashedNames specs) e a (hwf e he) (hwf a ha)
        (by have := hall e he; have := hall a ha; unfold stickyKey at *; simp_all)
    have hts : ∀ e ∈ a :: t, e.type = a.type ∧ e.source = a.source :=
      fun e he => ⟨(inj e he).2.1, (inj e he).1⟩
    have hcoll : ∀ s ∈ specs, s.merge = .match_ → ∀ e ∈ a :: t, ∀ e' ∈ a :: t,
        e.objects s.name = e'.objects s.name := by
      intro s hs hm e he e' he'
      have hp : (hashedNames specs).contains s.name = true := by
        simp only [hashedNames, List.contains_iff_mem, List.mem_map, List.mem_filter, beq_iff_eq]
        exact ⟨s, ⟨hs, hm⟩, rfl⟩
      have e1 : e.objects s.name = a.objects s.name :=
        objects_ext e a s.name fun v => (inj e he).2.2 s.name v hp
      have e2 : e'.objects s.name = a.objects s.name :=
        objects_ext e' a s.name fun v => (inj e' he').2.2 s.name v hp
      rw [e1, e2]
    have := merge_hash_eq specs hn none (a :: t) r hr a.type a.source hts hcoll a ha
    unfold stickyKey
    rw [this]
    exact hall a ha

/-! ### Non-vacuity -/

example : OrderFree (some "v") [exE1, exE2] ⟨"h", .match_, false⟩ := by
  unfold OrderFree; simp only; decide +kernel
example : OrderFree (some "v") [exE1, exE2] ⟨"v", .max, true⟩ := by
  unfold OrderFree; simp only; decide +kernel

end EdxmlProps.C05
