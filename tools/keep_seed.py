#!/usr/bin/env python3
"""tools/keep_seed.py <src dir> <seed id> <property> <caught: yes|no|partly> <checks run> -- copy a confirmed seeded change."""
import json, os, shutil, sys
src, sid, prop, caught, checks = sys.argv[1:6]
dst = os.path.join('/verif/seeded', sid)
os.makedirs(dst, exist_ok=True)
for f in ('patch.diff', 'demo.py', 'notes.md', 'patch.orig.diff'):
    if os.path.exists(os.path.join(src, f)):
        shutil.copy(os.path.join(src, f), os.path.join(dst, f))
notes = open(os.path.join(src, 'notes.md')).read()
meta = {
    'id': sid, 'breaks_property': prop,
    'author': 'independent sub-agent given only the property text and a scratch worktree',
    'needs_to_manifest': notes.strip().split('\n\n')[0][:1500],
    'confirmed': 'applied to /repo working tree: demo.py exits non-zero with the patch and 0 without; test suite has the same '
                 '12 pre-existing failures and 1112 passes; /repo restored with git checkout',
    'ran': 'tools/try_seed.sh %s %s' % (dst, checks),
    'detected_by_quick_check': caught,
}
json.dump(meta, open(os.path.join(dst, 'meta.json'), 'w'), indent=1)
print('kept', dst)
