#!/bin/sh
# Run the repository's test suite and compare the set of failures with the baseline (12 pre-existing failures).
cd /repo && /venv/bin/python -m pytest -q -p no:cacheprovider --timeout=900 --continue-on-collection-errors -x -q -n 8 2>/dev/null >/tmp/repo_tests.out || /venv/bin/python -m pytest -q -p no:cacheprovider --timeout=900 --continue-on-collection-errors > /tmp/repo_tests.out 2>&1
grep -E "^(FAILED|ERROR)" /tmp/repo_tests.out | sed 's/ - .*//' | sort > /tmp/repo_failed.txt
tail -1 /tmp/repo_tests.out
if [ -f /tmp/baseline_failed.txt ]; then diff /tmp/baseline_failed.txt /tmp/repo_failed.txt && echo "same failures as baseline"; fi
