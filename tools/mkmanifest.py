#!/usr/bin/env python3
"""Regenerate MANIFEST.json from the property modules present in vf/props."""
import importlib
import json
import os
import sys

ROOT = os.path.dirname(os.path.dirname(os.path.abspath(__file__)))
sys.path.insert(0, ROOT)

ALL = ['C%02d' % i for i in range(1, 21)]
PENDING_REASON = ('not claimed yet: the Lean model and correspondence check for this property are not '
                  'built at this commit (planned in DESIGN.md section 10); Lean proof does apply to it')


def main():
    checks, na = [], []
    for pid in ALL:
        path = os.path.join(ROOT, 'vf', 'props', pid.lower() + '.py')
        if not os.path.exists(path):
            na.append({'property_id': pid, 'reason': PENDING_REASON})
            continue
        prop = importlib.import_module('vf.props.' + pid.lower()).PROPERTY
        checks.append({
            'property_id': pid,
            'quick_cmd': './check %s --tier quick' % pid,
            'thorough_cmd': './check %s --tier thorough' % pid,
            'evidence_file': 'evidence/%s.json' % pid,
            'replay_cmd_template': './check %s --replay {path}' % pid,
            'engine': 'lean4-model+correspondence',
            'level_claimed': {'category': prop.level, 'text': prop.level_text, 'design_ref': prop.design_ref},
            'level_note': prop.level_note,
            'technique': prop.technique,
        })
    manifest = {
        'version': 1,
        'setup_cmd': 'cd lean && lake build',
        'hooks': {
            'guard': 'EDXML_SDK_VERIF',
            'enable': 'no hooks are needed: every observation point is reachable through the public API; '
                      'checks import edxml from /repo (EDXML_SDK_ROOT) as it is',
            'baseline_off_cmd': 'cd /repo && /venv/bin/python -m pytest -ra -q -p no:cacheprovider --timeout=900 '
                                '--continue-on-collection-errors',
            'source_commits': [],
            'add_only': True,
        },
        'engines': [{
            'name': 'lean4-model+correspondence',
            'path': 'lean/ (model, theorems, driver), vf/ (harness), check',
            'serves_properties': [c['property_id'] for c in checks],
            'kind_free_text': 'hand-written Lean 4 model with machine-checked theorems per property, tied to '
                              '/repo on every run by a differential correspondence check through a compiled '
                              'model driver; independent Python oracles search for failing inputs',
        }],
        'checks': checks,
        'not_applicable': na,
        'notes': 'See DESIGN.md. known_findings.json lists genuine defects (known / fixed). '
                 'seeded/ holds independently written breaking changes used to validate sensitivity.',
    }
    with open(os.path.join(ROOT, 'MANIFEST.json'), 'w') as f:
        json.dump(manifest, f, indent=1)
        f.write('\n')
    print('checks:', [c['property_id'] for c in checks])


if __name__ == '__main__':
    main()
