#!/usr/bin/env python3
"""Print the prompt handed to an independent sub-agent that seeds a breaking change (property text only)."""
import json
import sys

pid = sys.argv[1]
round3 = len(sys.argv) > 2 and sys.argv[2] == 'callers'
round4 = len(sys.argv) > 2 and sys.argv[2] == 'stateful'
round6 = len(sys.argv) > 2 and sys.argv[2] == 'recovery'
round7 = len(sys.argv) > 2 and sys.argv[2] == 'sharing'
round8 = len(sys.argv) > 2 and sys.argv[2] == 'entrypoints'
wt = '/tmp/wt-%s' % pid
for line in open('/verif/properties.jsonl'):
    p = json.loads(line)
    if p['id'] == pid:
        break
extra = (" At least one of the two changes must be made in a module OTHER than the files the property is anchored in: a caller, helper or sibling module through which the property is also observable (for instance command line tools under edxml/cli, event collections, the transcoder classes and their test harnesses, the miner's parsers, logging or utility modules), so that code paths beyond the central one are covered." if round3 else "")
if round8:
    extra = (" At least one of the two changes must only manifest through a LESS USED public way of doing the same thing: an alternative entry point, constructor, keyword argument, option, property setter, operator, context manager, iterator or command line flag that reaches the same mechanism as the common call (the common call must keep working correctly). The other change must be a short cut: an early exit, fast path or skipped step guarded by a condition that is almost always true, so that the full work is skipped exactly when it would have mattered (the guard must look like a sensible optimisation). Both must look like ordinary maintenance (a refactoring, a speed-up, a tidy-up), not like sabotage.")
if round7:
    extra = (" At least one of the two changes must only manifest when two live objects share, copy or hand over state: one Ontology object given to two writers, validators, collections or mediators; an event that sits in two collections or is written twice; copy.copy / copy.deepcopy / pickle of ontologies, events, collections, templates or parsers; an object returned by a getter that the caller then mutates; class-level (shared between instances) versus instance-level attributes. The other change must depend on the ORDER in which definitions, properties, objects or events are supplied (dictionary / set iteration order, registration order, sorted versus insertion order) and keep the most common order correct.")
if round6:
    extra = (" At least one of the two changes must only manifest after something went wrong or was refused earlier on the same objects: an operation that raised an EDXML error half way (an invalid event, an incompatible definition, a rejected record, malformed input) and left partial state behind, or an object (writer, parser, validator, ontology, event, collection, mediator, template) that keeps being used after it reported an error, so that later VALID operations misbehave. The other change must keep the most common usage correct and manifest only under a combination of two unusual circumstances (a non-default option or constructor argument, a particular order of API calls, a boundary value such as empty / maximum length / zero / non-BMP characters).")
if round4:
    extra = (" At least one of the two changes must only manifest through state carried across operations or through two cooperating sites: a cache, memo, counter or flag that survives between calls, an object reused across documents, sessions or ontologies, an upgrade or mutation that happens between two uses, or a helper whose changed contract only matters to one distant caller. The other change should be triggered by an unusual but legal input (boundary values, rarely used options or constructor arguments, rarely combined features) on a code path that the obvious usage does not take.")
print(f"""You are working in a scratch git worktree of the pure-Python package edxml/sdk at {wt} (a detached checkout of the project's HEAD). Work ONLY inside {wt}. Do not read, list or modify /repo or /verif or any other /tmp/wt-* directory. Never use `git stash` (the stash is shared between worktrees); to undo a change use `git apply -R` or `git checkout -- <file>`.

Environment: no network. Python is /venv/bin/python (all dependencies installed). To run code against the worktree use `cd {wt} && PYTHONPATH={wt} /venv/bin/python ...` and check `edxml.__file__` points into {wt}. Test suite: `cd {wt} && /venv/bin/python -m pytest -q -p no:cacheprovider` (about 6 s). On the unchanged tree exactly 12 tests fail (listed in /tmp/baseline_failed.txt) and 1112 pass; those 12 are pre-existing and irrelevant.

The following semantic property of the SDK is supposed to hold:

  Title: {p['title']}
  Statement: {p['statement']}
  Quantified over: {p['quantifier']['text']}
  Code it is anchored in: {', '.join(p['anchors']['files'])}

Your task: write TWO different, independent, realistic changes to the package source under {wt}/edxml (not to tests) that each BREAK this property while the package still imports and the existing test suite still passes exactly as before (same 1112 passing, no new failures). Each change should look like a plausible refactoring, optimisation or well-meant bug fix gone wrong - the kind of regression a maintainer could really commit - not sabotage. Prefer changes that need something specific to manifest (an unusual input, a particular multi-step sequence of operations, a particular interleaving or chunking, a fault at a particular point, or two cooperating sites that each look fine alone) rather than ones any ordinary use would expose at once. The two changes should touch different mechanisms.{extra}

For each change N in (1, 2) create the directory {wt}/_seed/{pid}-N/ containing:
  * patch.diff - `git diff` against HEAD, must apply with `git apply` from the repository root (only files under edxml/).
  * demo.py - a small standalone program demonstrating the breakage through the public API: it must exit 0 on the unchanged code and exit non-zero (printing what went wrong) when the patch is applied. It must import edxml from the directory named by the environment variable EDXML_SDK_ROOT (insert it at sys.path[0]; default to the current directory) and assert that edxml.__file__ lies under it.
  * notes.md - which part of the property is broken, what exactly is needed for the breakage to manifest, and why the existing tests do not notice.

Verify yourself, for each change: (a) with the patch applied the full test suite has the same failures as /tmp/baseline_failed.txt and 1112 passed; (b) demo.py exits non-zero with the patch and 0 without it. When you are done make sure the worktree's tracked files are unmodified again (`git checkout -- .`), leaving only the untracked _seed/ directory. Finish with a short summary (the two changes, one paragraph each).""")
