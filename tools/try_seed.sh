#!/bin/sh
# tools/try_seed.sh <seed dir containing patch.diff, demo.py> <property id>...
# Applies the seeded change to /repo, confirms the demo fails and the test suite is unchanged,
# runs the quick checks of the named properties, then reverts /repo and confirms the demo passes.
d=$1; shift
cd /repo || exit 2
if ! git diff --quiet; then echo "/repo has local changes"; exit 2; fi
rebase=0
git apply --check "$d/patch.diff" 2>/dev/null || { echo "patch does not apply cleanly, trying 3-way"; rebase=1; }
git apply -3 "$d/patch.diff" || { echo "APPLY-FAILED"; git reset -q --hard HEAD; exit 2; }
git reset -q
if [ $rebase = 1 ]; then cp "$d/patch.diff" "$d/patch.orig.diff"; git diff > "$d/patch.diff"; echo "rebased patch written"; fi
echo "--- demo with patch:"; EDXML_SDK_ROOT=/repo /venv/bin/python "$d/demo.py" > /tmp/demo.out 2>&1; echo "demo rc=$?"; tail -3 /tmp/demo.out
echo "--- tests with patch:"; /venv/bin/python -m pytest -q -p no:cacheprovider 2>&1 | grep ^FAILED | sed 's/ - .*//' | sort | diff - /verif/tools/baseline_failed.txt > /dev/null && echo "tests: same as baseline" || echo "tests: DIFFER from baseline"
for p in "$@"; do
  echo "--- check $p:"; (cd /verif && VERIF_EVIDENCE_DIR=/tmp/evidence-seeded VERIF_SEED=${VERIF_SEED:-0} ./check $p 2>&1 | tail -3; )
done
git -C /repo checkout -- .
echo "--- demo without patch:"; EDXML_SDK_ROOT=/repo /venv/bin/python "$d/demo.py" > /tmp/demo.out 2>&1; echo "demo rc=$?"
